// C05 — the pipeline is race-free, renders atomically and ends with a
// complete render. The package is always built with -race.
package c05

import (
	"bytes"
	"fmt"
	"os"
	"os/exec"
	"path/filepath"
	"regexp"
	"runtime"
	"strconv"
	"strings"
	"sync"
	"sync/atomic"
	"testing"
	"time"

	"pgregory.net/rapid"
	"rare/cmd/helpers"
	"rare/pkg/aggregation"
	"rare/pkg/aggregation/sorting"
	"verifharness/pbt"
	"verifharness/pipe"
)

var (
	dirOnce sync.Once
	workDir string
)

func caseDir() string {
	dirOnce.Do(func() {
		d := os.Getenv("VERIF_SCRATCH")
		if d == "" {
			d = os.TempDir()
		}
		workDir, _ = os.MkdirTemp(d, "c05-")
	})
	return workDir
}

// Case: a pipeline case plus the latencies of Sample and writeOutput.
type Case struct {
	P           pipe.Case
	SampleDelay []int // per Sample (cycled): 0 none, 1 yield, n>1 sleep n µs
	RenderDelay []int // per writeOutput (cycled)
	ReaderSleep int   // µs slept by the chunking readers every 64 lines worth of bytes (file path: emulated by matcher delay)
}

// recorder wraps the real counter: it is the aggregation.Aggregator handed
// to RunAggregationLoop and records the history the invariants are about.
type recorder struct {
	counter  *aggregation.MatchCounter
	inSample int32
	inRender int32
	samples  int64
	delays   []int
	overlap  atomic.Value // string: first overlap seen
}

func (r *recorder) Sample(s string) {
	atomic.StoreInt32(&r.inSample, 1)
	if atomic.LoadInt32(&r.inRender) != 0 {
		r.overlap.CompareAndSwap(nil, "a match was sampled while a render was running")
	}
	n := atomic.AddInt64(&r.samples, 1)
	if len(r.delays) > 0 {
		d := r.delays[int(n)%len(r.delays)]
		switch {
		case d == 1:
			runtime.Gosched()
		case d > 1:
			time.Sleep(time.Duration(d) * time.Microsecond)
		}
	}
	r.counter.Sample(s)
	if atomic.LoadInt32(&r.inRender) != 0 {
		r.overlap.CompareAndSwap(nil, "a render started while a match was being sampled")
	}
	atomic.StoreInt32(&r.inSample, 0)
}

func (r *recorder) ParseErrors() uint64 { return r.counter.ParseErrors() }

type snapshot struct {
	counts        map[string]int64
	matched       uint64
	read, ignored uint64
	samples       int64
	status        string
	summary       string
	active        int
	bfull         bool // the batch channel (cap --batch-buffer) was full when this render ran
	rfull         bool // the 5-slot match channel was full when this render ran
}

var ansiRe = regexp.MustCompile("\x1b\\[[0-9;]*m")
var summaryRe = regexp.MustCompile(`Matched: ([0-9,]+) / ([0-9,]+)`)
var ignoredRe = regexp.MustCompile(`\(Ignored: ([0-9,]+)\)`)

// parseSummary reads "Matched: M / R .. (Ignored: I)" as the commands print it (colour codes and thousands
// separators removed).
func parseSummary(s string) (m, r, i uint64, ok bool) {
	s = ansiRe.ReplaceAllString(s, "")
	g := summaryRe.FindStringSubmatch(s)
	if g == nil {
		return 0, 0, 0, false
	}
	num := func(t string) uint64 {
		v, _ := strconv.ParseUint(strings.ReplaceAll(t, ",", ""), 10, 64)
		return v
	}
	m, r = num(g[1]), num(g[2])
	if ig := ignoredRe.FindStringSubmatch(s); ig != nil {
		i = num(ig[1])
	}
	return m, r, i, true
}

func check(c Case) error {
	pc := c.P
	p, err := pipe.Build(&pc, caseDir())
	if err != nil {
		return err
	}
	defer p.Done()
	defer p.Cleanup()

	rec := &recorder{counter: aggregation.NewCounter(), delays: c.SampleDelay}
	var snaps []snapshot
	renders := 0
	var renderErr error
	sorter := sorting.ValueSorterEx(sorting.ByName) // stateless; what histo's default resolves to does not matter here
	writeOutput := func() {
		atomic.StoreInt32(&rec.inRender, 1)
		if atomic.LoadInt32(&rec.inSample) != 0 && renderErr == nil {
			renderErr = fmt.Errorf("a render ran while a match was being sampled")
		}
		if len(c.RenderDelay) > 0 {
			d := c.RenderDelay[renders%len(c.RenderDelay)]
			switch {
			case d == 1:
				runtime.Gosched()
			case d > 1:
				time.Sleep(time.Duration(d) * time.Microsecond)
			}
		}
		renders++
		// what the commands do in their render callback
		s := snapshot{counts: map[string]int64{}}
		s.samples = atomic.LoadInt64(&rec.samples)
		s.matched = p.Extractor.MatchedLines()                                  // read first: it may only grow afterwards
		s.read, s.ignored = p.Extractor.ReadLines(), p.Extractor.IgnoredLines() // what the summary line shows
		for _, it := range rec.counter.ItemsSortedBy(rec.counter.GroupCount(), sorter) {
			s.counts[it.Name] = it.Item.Count()
		}
		s.summary = helpers.FWriteExtractorSummary(p.Extractor, rec.counter.ParseErrors(), fmt.Sprintf("(Groups: %d)", rec.counter.GroupCount()))
		s.status = p.Batcher.StatusString()
		s.active = p.Batcher.ActiveFileCount()
		s.bfull = len(p.Batcher.BatchChan()) == cap(p.Batcher.BatchChan())
		s.rfull = len(p.Extractor.ReadChan()) == cap(p.Extractor.ReadChan())
		snaps = append(snaps, s)
		if atomic.LoadInt32(&rec.inSample) != 0 && renderErr == nil {
			renderErr = fmt.Errorf("a match was sampled while a render was running")
		}
		atomic.StoreInt32(&rec.inRender, 0)
	}

	start := time.Now()
	helpers.RunAggregationLoop(p.Extractor, rec, writeOutput)
	wall := time.Since(start)

	if v := rec.overlap.Load(); v != nil {
		return fmt.Errorf("render/sample overlap: %s", v.(string))
	}
	if renderErr != nil {
		return renderErr
	}
	if len(snaps) == 0 {
		return fmt.Errorf("no final render happened")
	}
	ref, err := pipe.Reference(&pc, p.Sources)
	if err != nil {
		return fmt.Errorf("harness: reference: %v", err)
	}
	wr, wm, wi := pipe.Counts(ref)
	want := map[string]int64{}
	for _, l := range ref {
		if l.Class == pipe.Matched {
			want[l.Key]++
		}
	}
	final := snaps[len(snaps)-1]
	total := atomic.LoadInt64(&rec.samples)
	if uint64(total) != wm {
		return fmt.Errorf("%d matches were sampled in total, the input has %d", total, wm)
	}
	if final.samples != total {
		return fmt.Errorf("final render saw %d samples, %d were sampled in total: the last render did not come after the last match", final.samples, total)
	}
	if final.matched != wm {
		return fmt.Errorf("final render shows MatchedLines=%d, true count %d", final.matched, wm)
	}
	// the summary of the final frame ("Matched: M / R (Ignored: I)") is the one left on screen: input that
	// ends in unmatched or ignored lines still has to be counted in it
	if final.read != wr || final.ignored != wi {
		return fmt.Errorf("final render shows %d lines read and %d ignored, true counts %d and %d: the last render did not come after the last line was classified", final.read, final.ignored, wr, wi)
	}
	// ... and the summary TEXT of the final frame says so (it is what stays on screen)
	if sm, sr, si, ok := parseSummary(final.summary); !ok {
		return fmt.Errorf("final render: cannot read the summary line %q", final.summary)
	} else if sm != wm || sr != wr || si != wi {
		return fmt.Errorf("the summary line of the final frame reads %q (matched %d / read %d, ignored %d); true totals: matched %d / read %d, ignored %d", final.summary, sm, sr, si, wm, wr, wi)
	}
	if got := p.Extractor.MatchedLines(); got != wm {
		return fmt.Errorf("MatchedLines=%d after the run, true count %d", got, wm)
	}
	if len(final.counts) != len(want) {
		return fmt.Errorf("final render shows %d keys, reference has %d", len(final.counts), len(want))
	}
	for k, v := range want {
		if final.counts[k] != v {
			return fmt.Errorf("final render shows %q=%d, reference %d", k, final.counts[k], v)
		}
	}
	// intermediate renders: counts never exceed the final ones, are monotone,
	// and the matched total is not below the sum of the displayed counts
	prev := map[string]int64{}
	for i, s := range snaps {
		var sum int64
		for k, v := range s.counts {
			sum += v
			if v > want[k] {
				return fmt.Errorf("render #%d shows %q=%d, more than the final count %d", i, k, v, want[k])
			}
			if v < prev[k] {
				return fmt.Errorf("render #%d shows %q=%d after an earlier render showed %d", i, k, v, prev[k])
			}
		}
		for k, v := range prev {
			if _, ok := s.counts[k]; !ok && v > 0 {
				return fmt.Errorf("render #%d lost key %q shown earlier", i, k)
			}
		}
		if int64(s.matched) < sum {
			return fmt.Errorf("render #%d shows matched total %d below the sum of displayed counts %d", i, s.matched, sum)
		}
		if s.samples != sum {
			return fmt.Errorf("render #%d: %d samples taken but displayed counts sum to %d (a sample was half applied)", i, s.samples, sum)
		}
		prev = s.counts
	}
	o := pc.Obs
	if o != nil {
		o.Add("renders", len(snaps)-1)
		o.Add("rw", maxi(pc.Workers, 2)*maxi(1, mini(pc.Readers, len(pc.Inputs))))
		o.Label(pc.Workers == 0, "workers-unset(default)")
		act, full := 0, 0
		for _, s := range snaps[:len(snaps)-1] {
			if s.active > 0 {
				act++
			}
			if s.bfull && s.rfull {
				full++ // readers are parked in their send on the batch channel, workers in theirs on the match channel
			}
		}
		o.Add("renders-while-reading", act)
		o.Add("renders-with-full-channels", full)
		o.Label(full > 0, "render-while-both-channels-full")
		o.Label(wall >= 500*time.Millisecond && act > 0, "rate-update-branch(>0.5s)")
		o.Label(len(snaps)-1 >= 3, ">=3-intermediate-renders")
		o.Label(act > 0, "render-overlapping-active-reader")
		o.Label(pc.ViaReader, "reader-path")
		o.Label(len(pc.Missing) > 0, "unopenable-inputs")
		o.Label(len(pc.Missing) > 0 && len(pc.Missing) >= pc.Readers, "unopenable>=reader-slots")
		o.Label(strings.Contains(pc.Extract, "@") || strings.Contains(pc.Extract, "{!") || strings.Contains(pc.Extract, "time"), "shared-state-expression")
	}
	return nil
}

// sanitize keeps NUL out of the keys: the counter reads "key NUL increment"
// (C07's subject); here every sample must count exactly 1.
func sanitize(p *pipe.Case) {
	for i := range p.Inputs {
		p.Inputs[i].Content = pbt.S(bytes.ReplaceAll([]byte(p.Inputs[i].Content), []byte{0}, []byte{'0'}))
	}
	if strings.Contains(p.Extract, "{@}") {
		p.Extract = "{0}"
	}
}

func maxi(a, b int) int {
	if a > b {
		return a
	}
	return b
}
func mini(a, b int) int {
	if a < b {
		return a
	}
	return b
}

func classify(c Case) (bool, []string) {
	o := c.P.Obs
	nt := o.Get("rw") >= 4 && o.Has(">=3-intermediate-renders") && o.Has("render-overlapping-active-reader")
	return nt, o.All()
}

// expressions with shared state inside the library (sub-context pools, the
// math context pool, the time-format cache)
var sharedStateExtracts = []string{
	`{@join {@map {@split {0} " "} {upper {0}}} -}`,
	`{@len {@split {0} " "}}`,
	`{@reduce {@split {0} " "} {sumi {0} {len {1}}} 0}`,
	`{! len + 1}`,
	`{! [1] * 2 + 1}`,
	`{@join {@for 0 {lt {0} 3} {sumi {0} 1}} ,}`,
	`{@join {@filter {@split {0} " "} {isint {0}}} +}`,
	`{bucket {len {0}} 5}`,
}

func gen(t *rapid.T) Case {
	var c Case
	if rapid.IntRange(0, 5).Draw(t, "viaReader") == 0 {
		c.P = pipe.GenReaderCase(t, 300, false)
		// slow the reader so that renders overlap with reading
		c.P.Inputs[0].Chunks = []int{rapid.SampledFrom([]int{64, 256, 1024}).Draw(t, "rchunk")}
		c.P.Inputs[0].SleepsUs = nil
		n := rapid.IntRange(20, 120).Draw(t, "nsl")
		for i := 0; i < n; i++ {
			c.P.Inputs[0].SleepsUs = append(c.P.Inputs[0].SleepsUs, rapid.SampledFrom([]int{0, 2000, 5000, 12000}).Draw(t, "rs"))
		}
	} else {
		c.P = pipe.GenCase(t, 8, 300)
		c.P.Readers = rapid.IntRange(1, 8).Draw(t, "readers8")
	}
	if rapid.IntRange(0, 2).Draw(t, "shared") == 0 {
		c.P.Extract = rapid.SampledFrom(sharedStateExtracts).Draw(t, "sharedExtract")
	}
	sanitize(&c.P)
	// stage latencies chosen so that a run lasts 0.2-1.5 s
	lines := 0
	for _, in := range c.P.Inputs {
		lines += int(pipe.EngineFreeLineCount([]byte(in.Content)))
	}
	if lines < 1 {
		lines = 1
	}
	targetUs := rapid.SampledFrom([]int{150000, 300000, 600000, 900000}).Draw(t, "targetUs")
	per := targetUs / lines // µs per line if fully serial
	if per < 2 {
		per = 2
	}
	mk := func(label string, base int) []int {
		n := rapid.IntRange(1, 4).Draw(t, label+"N")
		out := make([]int, n)
		for i := range out {
			out[i] = rapid.SampledFrom([]int{0, 1, base, base * 3}).Draw(t, label)
		}
		return out
	}
	c.P.MatchDelay = mk("md", per*c.P.Workers/2+2)
	c.SampleDelay = mk("sd", per/2+2)
	c.P.ConsumeDelay = nil
	c.RenderDelay = mk("rd", rapid.SampledFrom([]int{10, 1000, 30000}).Draw(t, "rdBase"))
	if rapid.IntRange(0, 15).Draw(t, "defaultWorkers") == 7 {
		// Workers unset (`--workers 0`): the extractor starts its default number of workers
		c.P.Workers = 0
	}
	return c
}

func TestLoop(t *testing.T) {
	pbt.Run(t, pbt.Spec[Case]{
		Property: "C05", Name: "loop",
		Rule:   "the real helpers.RunAggregationLoop over the real batcher (1-8 files with 1-8 readers, or a slow chunked reader) and extractor (1-8 workers, batch-buffer 1-8, GOMAXPROCS 1-16) with generated latency plans for the matcher, Sample and the render callback so that runs last ~0.2-1.5 s (several 100 ms render ticks, some beyond the 0.5 s rate-update branch of StatusString); extract expressions include ones with library-internal shared state (@map/@for/@reduce sub-context pool, {! ..} context pool); the render callback does what the commands do (sorted items, FWriteExtractorSummary, StatusString). Built and run under the race detector. Invariants over the observed history: no race report; Sample and render never overlap; terminates; final render after the last Sample and equal to the reference counts; every intermediate render: counts <= final, monotone, matched total >= displayed sum, samples == displayed sum. Non-trivial: readers*workers >= 4, >=3 intermediate renders, >=1 render while a reader was active; distinct by case JSON",
		Budget: pbt.Budget{Quick: 400, Thorough: 9000},
		Gen:    gen, Check: check, Classify: classify,
		Watchdog: 60 * time.Second,
	})
}

// ---- the race-instrumented binary on every aggregator -------------------

type CLICase struct {
	P      pipe.Case
	Cmd    int
	Repeat int // the corpus is repeated so the run lasts long enough for render ticks
}

var cliCmds = [][]string{
	{"histo", "-x"},
	{"histo", "--all"},
	{"table", "--delim", " "},
	{"heatmap", "--delim", " "},
	{"spark", "--delim", " "},
	{"bars", "--delim", " "},
	{"bars", "-s", "--delim", " "},
	{"analyze", "-x"},
	{"reduce", "-a", "n={sumi {.} 1}", "-a", "m={maxi {.} {len {0}}}"},
	{"filter"},
}

func checkCLI(cc CLICase) error {
	bin := os.Getenv("VERIF_RARE_RACE_BIN")
	if bin == "" {
		return nil
	}
	c := cc.P
	dir := caseDir()
	var files []string
	for i, in := range c.Inputs {
		fn := filepath.Join(dir, fmt.Sprintf("cli%02d-%s", i, in.Name))
		b := []byte(in.Content)
		if len(b) > 0 && b[len(b)-1] != '\n' {
			b = append(b, '\n')
		}
		if err := os.WriteFile(fn, bytes.Repeat(b, cc.Repeat), 0o644); err != nil {
			return fmt.Errorf("harness: %v", err)
		}
		files = append(files, fn)
		defer os.Remove(fn)
	}
	cmdArgs := cliCmds[cc.Cmd%len(cliCmds)]
	args := []string{"--nocolor", cmdArgs[0],
		"--batch", strconv.Itoa(c.Batch), "--workers", strconv.Itoa(c.Workers),
		"--readers", strconv.Itoa(c.Readers), "--batch-buffer", strconv.Itoa(c.BatchBuffer)}
	args = append(args, cmdArgs[1:]...)
	switch cmdArgs[0] {
	case "table", "heatmap", "spark", "bars":
		args = append(args, "-e", "{1}", "-e", "{2}")
	case "analyze":
		args = append(args, "-e", "{len {0}}")
	case "reduce":
	default:
		args = append(args, "-e", c.Extract)
	}
	switch c.Matcher.Kind {
	case "regex":
		args = append(args, "-m", c.Matcher.Pattern)
	case "dissect":
		args = append(args, "-d", c.Matcher.Pattern)
	}
	for i, f := range files {
		for k, m := range c.Missing {
			if m == i {
				args = append(args, filepath.Join(dir, fmt.Sprintf("cli-missing-%d-%d.log", i, k)))
			}
		}
		args = append(args, f)
	}
	for k, m := range c.Missing {
		if m >= len(files) {
			args = append(args, filepath.Join(dir, fmt.Sprintf("cli-missing-%d-%d.log", m, k)))
		}
	}
	cmd := exec.Command(bin, args...)
	cmd.Env = append(os.Environ(), "GOMAXPROCS="+strconv.Itoa(c.Procs), "GORACE=halt_on_error=1 exitcode=66")
	var stdout, stderr bytes.Buffer
	cmd.Stdout, cmd.Stderr = &stdout, &stderr
	done := make(chan error, 1)
	if err := cmd.Start(); err != nil {
		return fmt.Errorf("harness: cannot run rare: %v", err)
	}
	go func() { done <- cmd.Wait() }()
	var runErr error
	select {
	case runErr = <-done:
	case <-time.After(120 * time.Second):
		cmd.Process.Kill()
		<-done
		return fmt.Errorf("rare %q did not terminate within 120 s (deadlock?)\nstderr: %s", args, pbt.Trunc(stderr.String(), 2000))
	}
	code := 0
	if ee, ok := runErr.(*exec.ExitError); ok {
		code = ee.ExitCode()
	}
	se := stderr.String()
	if strings.Contains(se, "DATA RACE") || code == 66 {
		return fmt.Errorf("race detector report from rare %q:\n%s", args, pbt.Trunc(se, 3500))
	}
	if strings.Contains(se, "panic:") || strings.Contains(se, "fatal error:") || strings.Contains(se, "send on closed channel") {
		return fmt.Errorf("rare %q crashed:\n%s", args, pbt.Trunc(se, 3500))
	}
	if code != 0 && code != 1 && code != 2 {
		return fmt.Errorf("rare %q exited %d:\n%s", args, code, pbt.Trunc(se, 1500))
	}
	o := c.Obs
	o.Add("rw", c.Workers*maxi(1, mini(c.Readers, len(c.Inputs))))
	o.Label(true, "cmd:"+strings.Join(cmdArgs[:1], ""))
	return nil
}

func TestRaceBinary(t *testing.T) {
	if os.Getenv("VERIF_RARE_RACE_BIN") == "" {
		t.Skip("no race-instrumented binary in this tier")
	}
	pbt.Run(t, pbt.Spec[CLICase]{
		Property: "C05", Name: "racebin",
		Rule:   "the race-instrumented rare binary (go build -race) on generated corpora (repeated 50-400x so the run spans several render ticks) with every aggregator command (histo, table, heatmap, spark, bars, bars -s, analyze, reduce, filter) and generated --workers/--readers/--batch/--batch-buffer/GOMAXPROCS: no race report (exit 66), no panic, terminates within 120 s. Non-trivial: readers*workers >= 4; distinct by case JSON",
		Budget: pbt.Budget{Quick: 48, Thorough: 1200},
		Gen: func(t *rapid.T) CLICase {
			cc := CLICase{P: pipe.GenCase(t, 8, 120)}
			cc.P.Readers = rapid.IntRange(1, 8).Draw(t, "readers8")
			cc.P.MatchDelay, cc.P.ConsumeDelay = nil, nil
			sanitize(&cc.P)
			for i := range cc.P.Inputs {
				if len(cc.P.Inputs[i].Content) > 8000 {
					cc.P.Inputs[i].Content = cc.P.Inputs[i].Content[:8000]
				}
			}
			cc.P.Matcher = pipe.Matcher{Kind: "regex", Pattern: rapid.SampledFrom([]string{`(\w+) (\w+)`, `(\w+)\W+(\d+)?`, `^(\S+)\s+(\S+)?`}).Draw(t, "pat")}
			cc.Cmd = rapid.IntRange(0, len(cliCmds)-1).Draw(t, "cmd")
			cc.Repeat = rapid.SampledFrom([]int{50, 150, 400}).Draw(t, "repeat")
			return cc
		},
		Check: checkCLI,
		Classify: func(cc CLICase) (bool, []string) {
			return cc.P.Obs.Get("rw") >= 4, cc.P.Obs.All()
		},
		Watchdog: 150 * time.Second,
	})
}
