// C05, "counters-ahead": the last sentence of the statement - every
// intermediate render shows a matched total that is not below the sum of the
// displayed counts - observed where a render can happen: at every batch
// boundary of the aggregation loop.
//
// helpers.RunAggregationLoop takes the output mutex per received batch; the
// 100 ms renderer can run between any two batches. What it then shows is
// "Matched: ext.MatchedLines()" next to counts that add up to the matches
// sampled so far. The 'loop' sub-property sees only the few renders the
// ticker happens to produce (3-15 per case); here the consumer plays the
// aggregation loop itself and looks at the counter after every batch, i.e. at
// every point where a render could be scheduled, with stalls that fill the
// 5-slot match channel so that workers park in their send.
package c05

import (
	"fmt"
	"testing"
	"time"

	"pgregory.net/rapid"
	"verifharness/pbt"
	"verifharness/pipe"
)

type AheadCase struct {
	P          pipe.Case
	StallEvery int // the consumer stalls before every StallEvery-th batch ...
	StallUs    int // ... for this long (at most 40 times)
}

func checkAhead(c AheadCase) error {
	pc := c.P
	p, err := pipe.Build(&pc, caseDir())
	if err != nil {
		return err
	}
	defer p.Done()
	defer p.Cleanup()
	var sampled uint64
	batches, stalls := 0, 0
	var firstErr error
	for batch := range p.Extractor.ReadChan() {
		batches++
		if c.StallEvery > 0 && batches%c.StallEvery == 0 && stalls < 40 {
			stalls++
			time.Sleep(time.Duration(c.StallUs) * time.Microsecond)
		}
		sampled += uint64(len(batch)) // "aggregator.Sample" of every match of the batch
		// the output mutex would be released here: a render may run now
		if m := p.Extractor.MatchedLines(); m < sampled && firstErr == nil {
			firstErr = fmt.Errorf("after batch %d the aggregation loop has sampled %d matches but the extractor reports Matched=%d: a render scheduled at this batch boundary shows a matched total below the sum of the displayed counts (workers=%d batch=%d procs=%d stallEvery=%d stallUs=%d)",
				batches, sampled, m, pc.Workers, pc.Batch, pc.Procs, c.StallEvery, c.StallUs)
		}
	}
	if firstErr != nil {
		return firstErr
	}
	if m := p.Extractor.MatchedLines(); m != sampled {
		return fmt.Errorf("input exhausted: %d matches were delivered, the extractor reports Matched=%d", sampled, m)
	}
	c.P.Obs.Add("batches", batches)
	c.P.Obs.Add("stalls", stalls)
	c.P.Obs.Add("matches", int(sampled))
	return nil
}

func genAhead(t *rapid.T) AheadCase {
	c := AheadCase{P: pipe.GenCase(t, 3, 600)}
	sanitize(&c.P)
	c.P.Missing = nil
	c.P.Hold = false
	c.P.ConsumeDelay = nil
	c.P.MatchDelay = nil
	if rapid.IntRange(0, 3).Draw(t, "md") == 0 {
		c.P.MatchDelay = []int{rapid.SampledFrom([]int{1, 1, 20}).Draw(t, "mdv")}
	}
	c.P.Batch = rapid.SampledFrom([]int{1, 2, 3, 7, 16}).Draw(t, "batch")
	c.P.Workers = rapid.IntRange(1, 8).Draw(t, "workers")
	c.P.Procs = rapid.SampledFrom([]int{1, 1, 2, 4, 16}).Draw(t, "procs")
	c.StallEvery = rapid.SampledFrom([]int{0, 5, 8, 12, 20}).Draw(t, "stallEvery")
	c.StallUs = rapid.SampledFrom([]int{200, 1000, 2000, 5000}).Draw(t, "stallUs")
	return c
}

func TestCountersAhead(t *testing.T) {
	pbt.Run(t, pbt.Spec[AheadCase]{
		Property: "C05", Name: "counters-ahead",
		Rule:   "the real batcher + extractor (1-3 files, batch 1-16, 1-8 workers, GOMAXPROCS 1-16) drained by a consumer that plays the aggregation loop: after every received batch - the point where the output mutex is released and a render may run - Matched must be >= the matches sampled so far; the consumer stalls 0.2-5 ms before every 5th-20th batch (at most 40 times) so that the 5-slot match channel fills and workers park in their send; at the end Matched == matches delivered. Under the race detector. Non-trivial: >=2 workers, >=20 batches, >=1 stall",
		Budget: pbt.Budget{Quick: 2400, Thorough: 60000},
		Gen:    genAhead, Check: checkAhead,
		Classify: func(c AheadCase) (bool, []string) {
			var l pbt.Labels
			o := c.P.Obs
			l.Add(c.P.Workers >= 2, "workers>=2")
			l.Add(c.P.Procs == 1, "GOMAXPROCS=1")
			l.Add(o.Get("stalls") > 0, "consumer-stalled")
			l.Add(o.Get("batches") >= 20, ">=20-batches")
			return c.P.Workers >= 2 && o.Get("batches") >= 20 && o.Get("stalls") > 0, l
		},
		Watchdog: 60 * time.Second,
	})
}
