// C13, "topn-large": `-n N` shows the head of the full order. For small key
// sets `perm` checks that; this sub-property does it for 64-220 groups, where
// an implementation might select the N first rows without sorting everything.
// "every permutation of the same data sorts to the same sequence" and "value
// puts larger totals first" then say which N rows are shown, whatever order
// the map hands the groups over in.
package c13

import (
	"fmt"
	"testing"

	"pgregory.net/rapid"
	"rare/pkg/aggregation"
	"verifharness/pbt"
)

type TopNCase struct {
	Sort   string
	Groups int
	Vals   []int64 // total of group i (key "g%04d" or the number itself, see Numeric)
	N      int
	Perm   []int // insertion order
	Obs    *pbt.Obs `json:"-"`
}

func topnKey(i int) string { return fmt.Sprintf("g%04d", i) }

func checkTopN(c TopNCase) error {
	if c.Groups < 2 || len(c.Vals) != c.Groups || len(c.Perm) != c.Groups || c.N < 1 {
		return nil
	}
	build := func(order []int) *aggregation.MatchCounter {
		mc := aggregation.NewCounter()
		for _, i := range order {
			mc.SampleValue(topnKey(i), c.Vals[i])
		}
		return mc
	}
	ident := make([]int, c.Groups)
	for i := range ident {
		ident[i] = i
	}
	var ref []string
	for round, order := range [][]int{ident, c.Perm} {
		mc := build(order)
		full, err := buildSorter(c.Sort)
		if err != nil {
			return err
		}
		all := mc.ItemsSortedBy(mc.GroupCount(), full)
		if len(all) != c.Groups {
			return fmt.Errorf("ItemsSortedBy(all) returned %d of %d groups", len(all), c.Groups)
		}
		if round == 0 {
			for _, it := range all {
				ref = append(ref, it.Name)
			}
		}
		for rep := 0; rep < 2; rep++ {
			s, _ := buildSorter(c.Sort)
			top := mc.ItemsSortedBy(c.N, s)
			want := c.N
			if want > c.Groups {
				want = c.Groups
			}
			if len(top) != want {
				return fmt.Errorf("ItemsSortedBy(%d) returned %d rows of %d groups", c.N, len(top), c.Groups)
			}
			for i, it := range top {
				if it.Name != ref[i] {
					return fmt.Errorf("--sort %s -n %d over %d groups (insertion order #%d, call %d): row %d is %q (total %d); the full order of the same data has %q there\n top: %v\nhead: %v",
						c.Sort, c.N, c.Groups, round, rep+1, i, it.Name, it.Item.Count(), ref[i], namesOfItems(top), ref[:want])
				}
			}
		}
	}
	c.Obs.Label(c.Groups >= 64 && c.N*4 <= c.Groups && c.N >= 2, "groups>=64,2<=n<=groups/4")
	return nil
}

func namesOfItems(items []aggregation.MatchPair) []string {
	out := make([]string, len(items))
	for i, it := range items {
		out[i] = it.Name
	}
	return out
}

func TestTopNLarge(t *testing.T) {
	pbt.Run(t, pbt.Spec[TopNCase]{
		Property: prop, Name: "topn-large",
		Rule:   "MatchCounter with 40-220 groups (keys g0000.., totals 0..groups/3 so that ties are frequent, or widely spread) filled in two insertion orders; for a sort name from {value, value:asc, text, text:desc, numeric} the N rows of ItemsSortedBy(N) (N from 1 to groups/2, asked twice with fresh sorters) must be the first N rows of the full order of the same data. Non-trivial: >=64 groups and 2 <= N <= groups/4",
		Budget: pbt.Budget{Quick: 3000, Thorough: 60000},
		Gen: func(t *rapid.T) TopNCase {
			c := TopNCase{Obs: pbt.NewObs()}
			c.Sort = rapid.SampledFrom([]string{"value", "value", "value:asc", "text", "text:desc", "numeric"}).Draw(t, "sort")
			c.Groups = rapid.IntRange(40, 220).Draw(t, "groups")
			spread := rapid.Bool().Draw(t, "spread")
			for i := 0; i < c.Groups; i++ {
				if spread {
					c.Vals = append(c.Vals, rapid.Int64Range(-1000, 1000000).Draw(t, "v"))
				} else {
					c.Vals = append(c.Vals, rapid.Int64Range(0, int64(c.Groups/3)).Draw(t, "v"))
				}
			}
			c.N = rapid.IntRange(1, c.Groups/2).Draw(t, "n")
			ident := make([]int, c.Groups)
			for i := range ident {
				ident[i] = i
			}
			c.Perm = rapid.Permutation(ident).Draw(t, "perm")
			return c
		},
		Check: checkTopN,
		Classify: func(c TopNCase) (bool, []string) {
			return c.Obs.Has("groups>=64,2<=n<=groups/4"), append(c.Obs.All(), "sort:"+c.Sort)
		},
	})
}
