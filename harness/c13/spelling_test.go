// C13, "spelling": rare lower-cases the sort name before it looks the mode
// up, so `--sort Value`, `--sort NUMERIC:desc` are accepted. A spelling that
// is accepted as a mode has to sort like that mode (the documented, lower-case
// spelling): "value puts larger totals first" does not depend on how the
// word was capitalised. A spelling that is refused is outside the property.
package c13

import (
	"fmt"
	"strings"
	"testing"
	"unicode"

	"pgregory.net/rapid"
	"verifharness/pbt"
)

type SpellCase struct {
	Sort    string // lower-case name with modifier
	Variant string // title | upper | mixed
	Keys    []pbt.S
	Vals    []int64
	Obs     *pbt.Obs `json:"-"`
}

func respell(name, variant string) string {
	mode, mod, has := strings.Cut(name, ":")
	switch variant {
	case "title":
		mode = strings.ToUpper(mode[:1]) + mode[1:]
	case "upper":
		mode = strings.ToUpper(mode)
	default:
		rs := []rune(mode)
		for i := range rs {
			if i%2 == 1 {
				rs[i] = unicode.ToUpper(rs[i])
			}
		}
		mode = string(rs)
	}
	if has {
		return mode + ":" + mod
	}
	return mode
}

func checkSpell(c SpellCase) error {
	keys := pbt.Strs(c.Keys)
	rows := make([]row, len(keys))
	for i, k := range keys {
		rows[i] = row{k, c.Vals[i]}
	}
	want, err := sortRows(c.Sort, rows)
	if err != nil {
		return err
	}
	spelled := respell(c.Sort, c.Variant)
	if _, err := buildSorter(spelled); err != nil {
		pbt.Exclude("capitalised sort name refused")
		c.Obs.Label(true, "refused")
		return nil
	}
	got, err := sortRows(spelled, rows)
	if err != nil {
		return err
	}
	if !sameRows(got, want) {
		return fmt.Errorf("--sort %s is accepted but does not sort like --sort %s\n %s: %v\n %s: %v", spelled, c.Sort, spelled, got, c.Sort, want)
	}
	c.Obs.Label(true, "accepted")
	return nil
}

func TestSpelling(t *testing.T) {
	pbt.Run(t, pbt.Spec[SpellCase]{
		Property: prop, Name: "spelling",
		Rule:   "sort name (5 modes x modifiers) written Title-case, UPPER-case or mIxEd; if BuildSorter accepts the spelling, sorting a generated key set (2-9 keys of the mode's kind, values -1..2 so that totals differ and tie) with it gives the same sequence as the documented lower-case spelling; refused spellings are counted and skipped. Non-trivial: accepted, >=3 keys",
		Budget: pbt.Budget{Quick: 6000, Thorough: 60000},
		Gen: func(t *rapid.T) SpellCase {
			sn := genSortName(t)
			kind := rapid.SampledFrom(kindsFor(modeOf(sn))).Draw(t, "kind")
			keys, _ := genKeySet(t, kind, 9)
			vals := make([]int64, len(keys))
			for i := range vals {
				vals[i] = rapid.Int64Range(-1, 2).Draw(t, "val")
			}
			return SpellCase{Sort: sn, Variant: rapid.SampledFrom([]string{"title", "upper", "mixed"}).Draw(t, "variant"), Keys: pbt.SS(keys), Vals: vals, Obs: pbt.NewObs()}
		},
		Check: checkSpell,
		Classify: func(c SpellCase) (bool, []string) {
			return c.Obs.Has("accepted") && len(c.Keys) >= 3, append(c.Obs.All(), "variant:"+c.Variant, "mode:"+modeOf(c.Sort))
		},
	})
}
