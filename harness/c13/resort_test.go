// C13, "resort": one aggregator, several sort modes asked one after the other.
//
// "For each sort mode ... the order of rows and columns depends only on the
// set of keys and their values": the order an accessor returns for a sorter is
// a function of (current data, that sorter) - not of which sorter was asked
// before, how often, or whether the data changed in between. The product asks
// one aggregator for two orders whenever a display pass is followed by the csv
// export (`-o`), and for the same order every 100 ms.
//
// A case feeds the samples in 1..3 phases; after each phase every sorted
// accessor (MatchCounter.ItemsSortedBy, SubKeyCounter.ItemsSorted,
// TableAggregator.OrderedRows / OrderedColumns, AccumulatingGroup.Groups with
// and without a sort expression) is asked for a generated sequence of sort
// names (different names in a row, the same name twice). Each answer must be
// the order that sort name gives for the current data on its own.
package c13

import (
	"fmt"
	"strings"
	"testing"

	"pgregory.net/rapid"
	"rare/pkg/aggregation"
	"rare/pkg/aggregation/sorting"
	"verifharness/pbt"
)

type ResortCase struct {
	Keys   []pbt.S
	Incs   [][]int64
	Perm   []int      // arrival order of the samples
	Cuts   []int      // number of samples fed before the reads of phase i (ascending, last = all)
	Reads  [][]string // Reads[i]: sort names asked, in this order, after phase i
	Reuse  bool       // a name asked again uses the same sorter object (as a renderer does) instead of a fresh one
	Layout string
	Obs    *pbt.Obs `json:"-"`
}

func (c ResortCase) validate() error {
	pc := PermCase{Keys: c.Keys, Incs: c.Incs, Perms: [][]int{c.Perm}}
	if err := pc.validate(); err != nil {
		return err
	}
	if len(c.Cuts) == 0 || len(c.Cuts) != len(c.Reads) {
		return fmt.Errorf("bad case: %d cuts, %d read lists", len(c.Cuts), len(c.Reads))
	}
	prev := 0
	for _, cut := range c.Cuts {
		if cut < prev || cut > len(c.Perm) {
			return fmt.Errorf("bad case: cuts %v", c.Cuts)
		}
		prev = cut
	}
	if prev != len(c.Perm) {
		return fmt.Errorf("bad case: last cut %d of %d samples", prev, len(c.Perm))
	}
	for _, l := range c.Reads {
		for _, name := range l {
			if _, err := buildSorter(name); err != nil {
				return fmt.Errorf("bad case: sort name %q: %v", name, err)
			}
		}
	}
	return nil
}

// sorterBox hands out the sorter of a name for one accessor: a fresh one per
// call, or (reuse) the one made at the first call.
type sorterBox struct {
	reuse bool
	nv    map[string]sorting.NameValueSorter
	nm    map[string]sorting.NameSorter
}

func newSorterBox(reuse bool) *sorterBox {
	return &sorterBox{reuse: reuse, nv: map[string]sorting.NameValueSorter{}, nm: map[string]sorting.NameSorter{}}
}

func (b *sorterBox) NV(name string) sorting.NameValueSorter {
	if s, ok := b.nv[name]; ok && b.reuse {
		return s
	}
	s, _ := buildSorter(name)
	b.nv[name] = s
	return s
}

func (b *sorterBox) Name(name string) (sorting.NameSorter, bool) {
	if s, ok := b.nm[name]; ok && b.reuse {
		return s, true
	}
	s, ok := nameSorter(name)
	if ok {
		b.nm[name] = s
	}
	return s, ok
}

func checkResort(c ResortCase) error {
	if err := c.validate(); err != nil {
		return err
	}
	keys := pbt.Strs(c.Keys)
	pc := PermCase{Keys: c.Keys, Incs: c.Incs}
	smp := pc.samples()
	hasNul := strings.Contains(strings.Join(keys, ""), "\x00")

	cnt := aggregation.NewCounter()
	sub := aggregation.NewSubKeyCounter()
	tr, tc := aggregation.NewTable("\x00"), aggregation.NewTable("\x00")
	acc := aggregation.NewAccumulatingGroup(stdKB)
	accE := aggregation.NewAccumulatingGroup(stdKB)
	for _, a := range []*aggregation.AccumulatingGroup{acc, accE} {
		if err := a.AddGroupExpr("k", "{0}"); err != nil {
			return fmt.Errorf("harness: %v", err)
		}
		if err := a.AddDataExpr("n", "{sumi {.} 1}", "0"); err != nil {
			return fmt.Errorf("harness: %v", err)
		}
	}
	if err := accE.SetSort("{0}"); err != nil {
		return fmt.Errorf("harness: %v", err)
	}
	boxes := make([]*sorterBox, 7)
	for i := range boxes {
		boxes[i] = newSorterBox(c.Reuse)
	}

	// current data in order of first arrival
	totals := make([]int64, len(keys))
	seen := make([]bool, len(keys))
	var order []int
	fed := 0
	for phase, cut := range c.Cuts {
		for ; fed < cut; fed++ {
			s := smp[c.Perm[fed]]
			k := keys[s.key]
			cnt.SampleValue(k, s.inc)
			// column / sub keys are plain words (a kind every mode is searched on)
			other := "c" + string(rune('a'+s.j%26))
			sub.SampleValue(k, other, s.inc)
			tr.SampleItem(other, k, s.inc)
			tc.SampleItem(k, other, s.inc)
			acc.Sample(k)
			accE.Sample(k)
			totals[s.key] += s.inc
			if !seen[s.key] {
				seen[s.key] = true
				order = append(order, s.key)
			}
		}
		cur := make([]row, len(order))
		for i, k := range order {
			cur[i] = row{keys[k], totals[k]}
		}
		prevName := ""
		var prevWant []row
		for ri, name := range c.Reads[phase] {
			want, err := sortRows(name, cur)
			if err != nil {
				return err
			}
			if !strings.HasPrefix(name, "nv:") { // the csv writers' sorters are no documented mode
				if err := checkMeaning(name, c.Layout, want); err != nil {
					return err
				}
			}
			if ri > 0 && name != prevName && !sameRows(want, prevWant) {
				c.Obs.Label(true, "consecutive-reads-differ")
			}
			if ri > 0 && name == prevName {
				c.Obs.Label(true, "same-name-twice")
			}
			where := fmt.Sprintf("read #%d of phase %d (%d of %d samples fed)", ri+1, phase+1, fed, len(c.Perm))
			if ri > 0 {
				where += fmt.Sprintf(", asked for --sort %s just before on the same data", prevName)
			}
			fail := func(what string, got []row) error {
				return fmt.Errorf("%s, --sort %s, %s: the order is not the one this sort gives for the data on its own\n got: %v\nwant: %v\nreads of this phase: %q", what, name, where, got, want, c.Reads[phase])
			}

			{
				items := cnt.ItemsSortedBy(len(cur), boxes[0].NV(name))
				g := make([]row, len(items))
				for i, it := range items {
					g[i] = row{it.Name, it.Item.Count()}
				}
				if !sameRows(g, want) {
					return fail("MatchCounter.ItemsSortedBy", g)
				}
			}
			{
				items := sub.ItemsSorted(boxes[1].NV(name))
				g := make([]row, len(items))
				for i, it := range items {
					g[i] = row{it.Name, it.Item.Count()}
				}
				if !sameRows(g, want) {
					return fail("SubKeyCounter.ItemsSorted", g)
				}
			}
			{
				rows := tr.OrderedRows(boxes[2].NV(name))
				g := make([]row, len(rows))
				for i, r := range rows {
					g[i] = row{r.Name(), r.Sum()}
				}
				if !sameRows(g, want) {
					return fail("TableAggregator.OrderedRows", g)
				}
				// the columns of the same table, by the same name
				cols := tr.OrderedColumns(boxes[3].NV(name))
				colRows := make([]row, len(cols))
				for i, k := range cols {
					colRows[i] = row{k, tr.ColTotal(k)}
				}
				wantCols, err := sortRows(name, colRows)
				if err != nil {
					return err
				}
				if !sameStrings(cols, namesOf(wantCols)) {
					return fmt.Errorf("TableAggregator.OrderedColumns (columns ca, cb, ..), --sort %s, %s:\n got: %q\nwant: %q", name, where, cols, namesOf(wantCols))
				}
			}
			{
				cols := tc.OrderedColumns(boxes[4].NV(name))
				g := make([]row, len(cols))
				for i, k := range cols {
					g[i] = row{k, tc.ColTotal(k)}
				}
				if !sameRows(g, want) {
					return fail("TableAggregator.OrderedColumns", g)
				}
			}
			if ns, ok := boxes[5].Name(name); ok {
				groups := acc.Groups(ns)
				g := make([]string, len(groups))
				for i, k := range groups {
					g[i] = string(k)
				}
				if !sameStrings(g, namesOf(want)) {
					return fmt.Errorf("AccumulatingGroup.Groups with the %s name sorter, %s:\n got: %q\nwant: %q", name, where, g, namesOf(want))
				}
				if !hasNul {
					ns2, _ := boxes[6].Name(name)
					groups := accE.Groups(ns2)
					g := make([]string, len(groups))
					for i, k := range groups {
						g[i] = string(k)
					}
					if !sameStrings(g, namesOf(want)) {
						return fmt.Errorf("AccumulatingGroup.Groups sorted by the expression {0} with the %s name sorter, %s:\n got: %q\nwant: %q", name, where, g, namesOf(want))
					}
				}
			}
			prevName, prevWant = name, want
		}
	}
	return nil
}

func classifyResort(c ResortCase) (bool, []string) {
	keys := pbt.Strs(c.Keys)
	labels := []string{"kind:" + classifyKeys(keys, c.Layout), fmt.Sprintf("phases:%d", len(c.Cuts))}
	if c.Reuse {
		labels = append(labels, "sorter-object-reused")
	}
	modesSeen := map[string]bool{}
	for _, l := range c.Reads {
		for _, name := range l {
			m := modeOf(name)
			if !modesSeen[m] {
				modesSeen[m] = true
				labels = append(labels, "mode:"+m)
			}
			if key, in := inKnownClass(m, keys, c.Layout); in {
				labels = append(labels, "class:"+key)
			}
		}
	}
	labels = append(labels, c.Obs.All()...)
	return len(keys) >= 4 && c.Obs.Has("consecutive-reads-differ"), labels
}

func genResort(t *rapid.T) ResortCase {
	c := ResortCase{Obs: pbt.NewObs()}
	phases := rapid.SampledFrom([]int{1, 1, 2, 3}).Draw(t, "phases")
	strictest := "text"
	c.Reads = make([][]string, phases)
	for p := range c.Reads {
		n := rapid.IntRange(2, 5).Draw(t, "nReads")
		for i := 0; i < n; i++ {
			var name string
			switch k := rapid.IntRange(0, 9).Draw(t, "readForm"); {
			case k == 0 && i > 0:
				name = c.Reads[p][i-1] // the same again
			case k == 1:
				name = rapid.SampledFrom([]string{"nv:value", "nv:name", "nv:smart"}).Draw(t, "nvName")
			case k == 2 && i > 0 && !strings.HasPrefix(c.Reads[p][i-1], "nv:"):
				// the mode just asked, the other way round
				prev := c.Reads[p][i-1]
				if strings.Contains(prev, ":") {
					name = modeOf(prev)
				} else {
					name = prev + ":reverse"
				}
			default:
				name = genSortName(t)
			}
			switch modeOf(name) {
			case "date":
				strictest = "date"
			case "contextual":
				if strictest != "date" {
					strictest = "contextual"
				}
			}
			c.Reads[p] = append(c.Reads[p], name)
		}
	}
	// the key set has to stay clear of the known classes of every mode asked;
	// the kinds searched under date are searched under contextual as well, and
	// every kind is closed under taking subsets (the earlier phases)
	keys, layout, incs := genData(t, strictest, 12, -2, 3)
	c.Keys, c.Layout, c.Incs = pbt.SS(keys), layout, incs
	pc := PermCase{Incs: incs}
	ns := len(pc.samples())
	c.Perm = genPerms(t, ns, 1, 1)[0]
	cuts := make([]int, phases)
	for i := range cuts {
		cuts[i] = rapid.IntRange(1, ns).Draw(t, "cut")
	}
	cuts[phases-1] = ns
	for i := phases - 2; i >= 0; i-- {
		if cuts[i] > cuts[i+1] {
			cuts[i] = cuts[i+1]
		}
	}
	c.Cuts = cuts
	c.Reuse = rapid.Bool().Draw(t, "reuse")
	return c
}

var resortSpec = pbt.Spec[ResortCase]{
	Property: prop, Name: "resort",
	Rule:   "key set of 2..12 keys (kind allowed for every mode asked) x increments -2..3 fed in one arrival order in 1..3 phases; after each phase MatchCounter.ItemsSortedBy, SubKeyCounter.ItemsSorted, TableAggregator.OrderedRows/OrderedColumns and AccumulatingGroup.Groups (plain and with sort expression {0}) are asked for 2..5 sort names in generated order (5 modes x modifiers and the NV* sorters of the csv writers; the same name twice, a mode and its reverse, fresh or reused sorter objects); every answer must be the order sorting.Sort gives for that name alone on the current data, and must not contradict the model of the mode. Non-trivial: >=4 keys and two consecutive reads of one phase whose expected orders differ",
	Budget: pbt.Budget{Quick: 3000, Thorough: 160000},
	Gen:    genResort, Check: checkResort, Classify: classifyResort,
}

func TestResort(t *testing.T) { pbt.Run(t, resortSpec) }
