package c13

// Reference model of "what the sort modes mean", written from the property
// statement and docs/usage/aggregators.md ("Sorting"), not from rare's code.
//
// The model is deliberately PARTIAL: for a pair of rows it answers "a must
// come before b", "b must come before a" or "the documents do not say". Only
// the first two are asserted. What the documents do say:
//
//   text        "Pure alphanumeric sort ... would sort 1, 11, 2"   -> dictionary
//               order; asserted only between two all-digit keys or two
//               all-lowercase-letter keys (no case / collation question).
//   numeric     "orders numbers by magnitude"; "If unable to parse, falls back
//               to alphanumeric" -> two plain decimal spellings with different
//               values: smaller first; two letter-only words: dictionary order.
//               Number against text: not stated, not asserted.
//   contextual  "orders weekday and month names by calendar position";
//               "Falls back to numeric". Asserted when the WHOLE key set is
//               weekday names, or month names (whole list uses that order), or
//               holds no such name at all (numeric rules). Sunday's place (first
//               or last day of the week) is a convention: not asserted.
//   date        "orders chronologically"; "Falls back to contextual". Asserted
//               when the whole key set is one date layout (different instants:
//               earlier first), or falls under the contextual rules above.
//   value       "puts larger totals first" (default / :desc), smaller first for
//               :asc / :reverse. Equal totals: not stated, not asserted.
//   modifiers   ":reverse -- Reverse of the default", ":asc", ":desc"; "value
//               ... Defaults to descending order"; "reversing reverses the
//               order" -> exact reverse sequence.

import (
	"fmt"
	"math"
	"math/big"
	"regexp"
	"strings"
	"time"
)

// calendar tables (English names and the common abbreviations)
var weekdayPos = map[string]int{
	"sunday": 0, "sun": 0,
	"monday": 1, "mon": 1,
	"tuesday": 2, "tue": 2, "tues": 2,
	"wednesday": 3, "wed": 3,
	"thursday": 4, "thu": 4, "thur": 4, "thurs": 4,
	"friday": 5, "fri": 5,
	"saturday": 6, "sat": 6,
}

var monthPos = map[string]int{
	"january": 1, "jan": 1, "february": 2, "feb": 2, "march": 3, "mar": 3,
	"april": 4, "apr": 4, "may": 5, "june": 6, "jun": 6, "july": 7, "jul": 7,
	"august": 8, "aug": 8, "september": 9, "sep": 9, "sept": 9,
	"october": 10, "oct": 10, "november": 11, "nov": 11, "december": 12, "dec": 12,
}

func asciiLower(s string) string {
	b := []byte(s)
	for i, c := range b {
		if c >= 'A' && c <= 'Z' {
			b[i] = c + 32
		}
	}
	return string(b)
}

func weekdayOf(k string) (int, bool) { p, ok := weekdayPos[asciiLower(k)]; return p, ok }
func monthOf(k string) (int, bool)   { p, ok := monthPos[asciiLower(k)]; return p, ok }
func isName(k string) bool {
	_, w := weekdayOf(k)
	_, m := monthOf(k)
	return w || m
}

// plain decimal spellings: the "numbers" of the statement. Hex floats, inf,
// nan, digit separators, blanks are NOT claimed to be numbers (nor text).
// (1. and .5 are read by some parsers only: left out as well.)
var decimalRe = regexp.MustCompile(`^[+-]?[0-9]+(\.[0-9]+)?([eE][+-]?[0-9]{1,3})?$`)

// numberOf returns the value of a plain decimal spelling rounded to float64.
// Tolerance: two spellings whose values round to the same float64 are treated
// as equal (order between them not asserted); |v| >= 1e300 is not claimed.
func numberOf(k string) (float64, bool) {
	if len(k) > 40 || !decimalRe.MatchString(k) {
		return 0, false
	}
	r, ok := new(big.Rat).SetString(k)
	if !ok {
		return 0, false
	}
	f, _ := r.Float64()
	if math.IsInf(f, 0) || math.Abs(f) >= 1e300 {
		return 0, false
	}
	return f, true
}

func allIn(k string, lo, hi byte) bool {
	if k == "" {
		return false
	}
	for i := 0; i < len(k); i++ {
		if k[i] < lo || k[i] > hi {
			return false
		}
	}
	return true
}

// isWord: lowercase letters only, not something a float parser may read.
func isWord(k string) bool {
	if !allIn(k, 'a', 'z') {
		return false
	}
	switch k {
	case "nan", "inf", "infinity":
		return false
	}
	return true
}

type row struct {
	Name  string
	Value int64
}

func (r row) String() string { return fmt.Sprintf("%q=%d", r.Name, r.Value) }

type sortSpec struct {
	Mode string // text numeric contextual date value
	Desc bool
}

// parseSpec reads "<mode>[:asc|:desc|:reverse]" as the docs describe it.
func parseSpec(s string) (sortSpec, error) {
	mode, mod, has := strings.Cut(s, ":")
	sp := sortSpec{Mode: mode}
	switch mode {
	case "text", "numeric", "contextual", "date":
	case "value":
		sp.Desc = true // "Defaults to descending order"
	default:
		return sp, fmt.Errorf("model: unknown mode %q", mode)
	}
	if has {
		switch mod {
		case "asc":
			sp.Desc = false
		case "desc":
			sp.Desc = true
		case "reverse":
			sp.Desc = !sp.Desc
		default:
			return sp, fmt.Errorf("model: unknown modifier %q", mod)
		}
	}
	return sp, nil
}

// keySet summarises the whole key set once (contextual / date meaning depends
// on the whole set, see above).
type keySet struct {
	allWeekdays, allMonths, noNames bool
	layout                          string
	uniform                         bool                 // every key parses under layout
	instants                        map[string]time.Time // non-nil iff uniform and the layout reads one way only
}

// layouts a reader may take as month/day or as day/month: chronological order
// is not asserted for them (consistency still is).
func ambiguousLayout(l string) bool { return strings.HasPrefix(l, "01/02/") }

func summarise(keys []string, layout string) keySet {
	ks := keySet{allWeekdays: len(keys) > 0, allMonths: len(keys) > 0, noNames: true, layout: layout}
	for _, k := range keys {
		if _, ok := weekdayOf(k); !ok {
			ks.allWeekdays = false
		}
		if _, ok := monthOf(k); !ok {
			ks.allMonths = false
		}
		if isName(k) {
			ks.noNames = false
		}
	}
	if layout != "" && len(keys) > 0 {
		m := map[string]time.Time{}
		for _, k := range keys {
			t, err := time.Parse(layout, k)
			if err != nil {
				m = nil
				break
			}
			m[k] = t
		}
		ks.uniform = m != nil
		if !ambiguousLayout(layout) {
			ks.instants = m
		}
	}
	return ks
}

// ascending-sense verdicts
const (
	aFirst = -1
	noSay  = 0
	bFirst = 1
)

func cmpInt(a, b int) int {
	switch {
	case a < b:
		return aFirst
	case a > b:
		return bFirst
	}
	return noSay
}

func textRule(a, b string) int {
	if (allIn(a, '0', '9') && allIn(b, '0', '9')) || (isWord(a) && isWord(b)) {
		return cmpInt(strings.Compare(a, b), 0)
	}
	return noSay
}

func numericRule(a, b string) int {
	va, oka := numberOf(a)
	vb, okb := numberOf(b)
	if oka && okb {
		switch {
		case va < vb:
			return aFirst
		case va > vb:
			return bFirst
		}
		return noSay
	}
	if isWord(a) && isWord(b) {
		return cmpInt(strings.Compare(a, b), 0)
	}
	return noSay
}

func contextualRule(ks keySet, a, b string) int {
	switch {
	case ks.allWeekdays:
		pa, _ := weekdayOf(a)
		pb, _ := weekdayOf(b)
		if pa == 0 || pb == 0 { // Sunday: first or last, a convention
			return noSay
		}
		return cmpInt(pa, pb)
	case ks.allMonths:
		pa, _ := monthOf(a)
		pb, _ := monthOf(b)
		return cmpInt(pa, pb)
	case ks.noNames:
		return numericRule(a, b)
	}
	return noSay
}

func dateRule(ks keySet, a, b string) int {
	if ks.instants != nil {
		ta, tb := ks.instants[a], ks.instants[b]
		switch {
		case ta.Before(tb):
			return aFirst
		case tb.Before(ta):
			return bFirst
		}
		return noSay
	}
	if ks.layout != "" {
		return noSay
	}
	if ks.allWeekdays || ks.allMonths {
		return contextualRule(ks, a, b)
	}
	// plain words only: the documented chain date -> contextual -> numeric -> alphanumeric
	if ks.noNames && isWord(a) && isWord(b) {
		return cmpInt(strings.Compare(a, b), 0)
	}
	return noSay
}

// mustPrecede: verdict for rows a, b under spec, in DISPLAY order (modifiers
// applied): aFirst, bFirst or noSay.
func mustPrecede(sp sortSpec, ks keySet, a, b row) int {
	v := noSay
	switch sp.Mode {
	case "text":
		v = textRule(a.Name, b.Name)
	case "numeric":
		v = numericRule(a.Name, b.Name)
	case "contextual":
		v = contextualRule(ks, a.Name, b.Name)
	case "date":
		v = dateRule(ks, a.Name, b.Name)
	case "value":
		switch {
		case a.Value < b.Value:
			v = aFirst
		case a.Value > b.Value:
			v = bFirst
		}
	}
	if sp.Desc {
		v = -v
	}
	return v
}

// checkMeaning verifies a displayed sequence against the partial model.
func checkMeaning(sortName string, layout string, seq []row) error {
	sp, err := parseSpec(sortName)
	if err != nil {
		return err
	}
	names := make([]string, len(seq))
	for i, r := range seq {
		names[i] = r.Name
	}
	ks := summarise(names, layout)
	for i := 0; i < len(seq); i++ {
		for j := i + 1; j < len(seq); j++ {
			if mustPrecede(sp, ks, seq[i], seq[j]) == bFirst {
				return fmt.Errorf("meaning of --sort %s: %v is displayed before %v, the documented order is the other way round\n displayed: %v",
					sortName, seq[i], seq[j], seq)
			}
		}
	}
	return nil
}

// hasVerdict reports whether the model says anything about this data (used
// for labels only).
func hasVerdict(sortName, layout string, seq []row) bool {
	sp, err := parseSpec(sortName)
	if err != nil {
		return false
	}
	names := make([]string, len(seq))
	for i, r := range seq {
		names[i] = r.Name
	}
	ks := summarise(names, layout)
	for i := 0; i < len(seq); i++ {
		for j := i + 1; j < len(seq); j++ {
			if mustPrecede(sp, ks, seq[i], seq[j]) != noSay {
				return true
			}
		}
	}
	return false
}
