// C13 — output ordering is a deterministic function of the aggregated data.
//
// Sub-properties:
//
//	axioms   bounded-exhaustive: every ordered pair and triple of fixed key
//	         pools, per sorter reachable through helpers.BuildSorter (and the
//	         NV* sorters of the CSV writers): exactly one of less(a,b)/less(b,a),
//	         transitivity, same answer from a fresh and from a used sorter.
//	triple   the same axioms on generated keys (rapid).
//	perm     permutation invariance through sorting.Sort/SortBy, one sorter
//	         reused over growing prefixes (the live renders), MatchCounter
//	         .ItemsSortedBy (+ top-N), TableAggregator.OrderedRows/Columns,
//	         AccumulatingGroup.Groups; documented meaning of each mode; exact
//	         reverse for :reverse/:desc/:asc.
//	cli      rare histo / rare table --snapshot --sort ... on files whose lines
//	         are permuted and spread over several files.
//	resort   (resort_test.go) one aggregator asked for several sort names in a
//	         row, also between samples: each answer is the order of that name
//	         alone on the current data.
//	reduce, reduce-cli
//	         (reduce_test.go) reduce --sort <expr> [--sort-reverse] with sort
//	         values that tie, in-process and through the binary.
package c13

import (
	"bytes"
	"fmt"
	"math"
	"os"
	"os/exec"
	"path/filepath"
	"strings"
	"testing"
	"time"

	"pgregory.net/rapid"
	"rare/cmd/helpers"
	"rare/pkg/aggregation"
	"rare/pkg/aggregation/sorting"
	"rare/pkg/expressions/stdlib"
	"verifharness/pbt"
)

type pair = sorting.NameValuePair

// ------------------------------------------------------------ sorters --

// buildSorter returns a FRESH sorter for a sort name. Names "nv:value",
// "nv:name", "nv:smart" denote the fixed sorters used by the CSV writers.
func buildSorter(name string) (sorting.NameValueSorter, error) {
	switch name {
	case "nv:value":
		return sorting.NVValueSorter, nil
	case "nv:name":
		return sorting.NVNameSorter, nil
	case "nv:smart":
		return sorting.NVSmartSorter, nil
	}
	return helpers.BuildSorter(name)
}

func modeOf(name string) string {
	m, _, _ := strings.Cut(name, ":")
	return m
}

// nameSorter: the key-only sorter of a mode as the library exposes it
// (reduce uses ByContextual; BuildSorter wraps these in ValueNilSorter).
func nameSorter(name string) (sorting.NameSorter, bool) {
	sp, err := parseSpec(name)
	if err != nil {
		return nil, false
	}
	var s sorting.NameSorter
	switch sp.Mode {
	case "text":
		s = sorting.ByName
	case "numeric":
		s = sorting.ByNameSmart
	case "contextual":
		s = sorting.ByContextual()
	case "date":
		s = sorting.ByDateWithContextual()
	default:
		return nil, false
	}
	if sp.Desc {
		s = sorting.Reverse(s)
	}
	return s, true
}

func rowsOf(ps []pair) []row {
	out := make([]row, len(ps))
	for i, p := range ps {
		out[i] = row{p.Name, p.Value}
	}
	return out
}

func sameRows(a, b []row) bool {
	if len(a) != len(b) {
		return false
	}
	for i := range a {
		if a[i] != b[i] {
			return false
		}
	}
	return true
}

func namesOf(rs []row) []string {
	out := make([]string, len(rs))
	for i, r := range rs {
		out[i] = r.Name
	}
	return out
}

func sameStrings(a, b []string) bool {
	if len(a) != len(b) {
		return false
	}
	for i := range a {
		if a[i] != b[i] {
			return false
		}
	}
	return true
}

func reversed(rs []row) []row {
	out := make([]row, len(rs))
	for i, r := range rs {
		out[len(rs)-1-i] = r
	}
	return out
}

// sortRows sorts a copy of in with a fresh sorter through sorting.Sort.
func sortRows(name string, in []row) ([]row, error) {
	s, err := buildSorter(name)
	if err != nil {
		return nil, fmt.Errorf("BuildSorter(%q): %v", name, err)
	}
	ps := make([]pair, len(in))
	for i, r := range in {
		ps[i] = pair{Name: r.Name, Value: r.Value}
	}
	sorting.Sort(ps, s)
	return rowsOf(ps), nil
}

// ------------------------------------------------------------- axioms --

type AxiomCase struct {
	Sort   string
	Keys   []pbt.S
	Vals   []int64 // value of each key (ignored by every mode but value)
	A      int     // index of the first element of the pairs/triples; -1 = all
	Layout string  // label only
	Pool   string  // label only
}

func checkAxioms(c AxiomCase) error {
	keys := pbt.Strs(c.Keys)
	if len(c.Vals) != len(keys) {
		return fmt.Errorf("bad case: %d keys, %d values", len(keys), len(c.Vals))
	}
	return axioms(c)
}

func axioms(c AxiomCase) error {
	keys := pbt.Strs(c.Keys)
	n := len(keys)
	seen := map[string]bool{}
	for _, k := range keys {
		if seen[k] {
			return fmt.Errorf("bad case: duplicate key %q", k)
		}
		seen[k] = true
	}
	if _, err := buildSorter(c.Sort); err != nil {
		return fmt.Errorf("BuildSorter(%q): %v", c.Sort, err)
	}
	p := func(i int) pair { return pair{Name: keys[i], Value: c.Vals[i]} }
	lt := func(i, j int) bool {
		s, _ := buildSorter(c.Sort) // fresh: two of the sorters carry state
		return s(p(i), p(j))
	}
	as := []int{c.A}
	if c.A < 0 {
		as = as[:0]
		for i := 0; i < n; i++ {
			as = append(as, i)
		}
	}
	for _, a := range as {
		if a >= n {
			return fmt.Errorf("bad case: A=%d out of range", a)
		}
		for b := 0; b < n; b++ {
			if b == a {
				continue
			}
			ab, ba := lt(a, b), lt(b, a)
			if ab == ba {
				what := "neither is placed before the other (the pair is left unordered, so its display order follows arrival / map order)"
				if ab {
					what = "each is placed before the other"
				}
				return fmt.Errorf("--sort %s: keys %v and %v: less(a,b)=%v and less(b,a)=%v: %s", c.Sort, row{keys[a], c.Vals[a]}, row{keys[b], c.Vals[b]}, ab, ba, what)
			}
			if again := lt(a, b); again != ab {
				return fmt.Errorf("--sort %s: less(%q,%q) answered %v then %v from two fresh sorters", c.Sort, keys[a], keys[b], ab, again)
			}
			for cc := 0; cc < n; cc++ {
				if cc == a || cc == b {
					continue
				}
				// the same decision from a sorter that has already compared other keys
				su, _ := buildSorter(c.Sort)
				su(p(cc), p(a))
				su(p(b), p(cc))
				if used := su(p(a), p(b)); used != ab {
					return fmt.Errorf("--sort %s: keys %q and %q are ordered differently by a fresh sorter (less=%v) and by the same sorter after it has compared them with %q (less=%v): the decision depends on what was compared first",
						c.Sort, keys[a], keys[b], ab, keys[cc], used)
				}
				if ab && lt(b, cc) && !lt(a, cc) {
					return fmt.Errorf("--sort %s: not transitive: %v < %v and %v < %v but not %v < %v (and %v < %v is %v)", c.Sort,
						row{keys[a], c.Vals[a]}, row{keys[b], c.Vals[b]}, row{keys[b], c.Vals[b]}, row{keys[cc], c.Vals[cc]},
						row{keys[a], c.Vals[a]}, row{keys[cc], c.Vals[cc]}, row{keys[cc], c.Vals[cc]}, row{keys[a], c.Vals[a]}, lt(cc, a))
				}
			}
		}
	}
	return nil
}

func classifyAxioms(c AxiomCase) (bool, []string) {
	keys := pbt.Strs(c.Keys)
	ties := tieClasses(keys, c.Vals, c.Layout)
	labels := []string{"sort:" + c.Sort, "kind:" + classifyKeys(keys, c.Layout)}
	if key, in := inKnownClass(modeOf(c.Sort), keys, c.Layout); in {
		labels = append(labels, "class:"+key)
	}
	if c.Pool != "" {
		labels = append(labels, "pool:"+c.Pool)
	}
	labels = append(labels, ties...)
	if beyond2p53(keys) {
		labels = append(labels, "keys:beyond-2^53-one-float64")
	}
	return len(keys) >= 3 && len(ties) > 0, labels
}

type pool struct {
	name   string
	keys   []string
	layout string
	modes  []string // sort names it is enumerated under
}

func withCase(names []string, limit int) []string {
	var out []string
	for i, n := range names {
		out = append(out, n)
		switch i % 3 {
		case 0:
			out = append(out, strings.ToUpper(n[:1])+n[1:])
		case 1:
			out = append(out, strings.ToUpper(n))
		default:
			out = append(out, n[:1]+strings.ToUpper(n[1:]))
		}
	}
	if len(out) > limit {
		out = out[:limit]
	}
	return out
}

func datePool(layout string) []string {
	base := time.Date(2021, 12, 31, 23, 59, 59, 0, time.UTC)
	deltas := []int64{0, 1, 60, 3600, 86400, 2 * 86400, 31 * 86400, 59 * 86400, 365 * 86400, -86400, -365 * 86400, -8000 * 86400, 3000 * 86400, 43200, 86399, 100 * 86400, 250 * 86400}
	seen := map[string]bool{}
	var out []string
	for i, d := range deltas {
		tm := base.Add(time.Duration(d) * time.Second)
		var k string
		if layoutHasZone(layout) {
			k = tm.In(time.FixedZone("", zoneOffsets[i%len(zoneOffsets)])).Format(layout)
			k2 := tm.In(time.FixedZone("", zoneOffsets[(i+2)%len(zoneOffsets)])).Format(layout) // same instant, other spelling
			if !seen[k2] {
				seen[k2] = true
				out = append(out, k2)
			}
		} else {
			k = tm.Format(layout)
		}
		if !seen[k] {
			seen[k] = true
			out = append(out, k)
		}
	}
	return out
}

func axiomPools() []pool {
	plain := []string{"text", "text:desc", "numeric", "numeric:reverse", "value", "value:asc", "nv:value", "nv:name", "nv:smart"}
	ctx := []string{"contextual", "contextual:desc"}
	dt := []string{"date", "date:desc"}
	if pbt.Thorough() {
		plain = []string{"nv:value", "nv:name", "nv:smart"}
		for _, m := range []string{"text", "numeric", "value"} {
			for _, mod := range []string{"", ":asc", ":desc", ":reverse"} {
				plain = append(plain, m+mod)
			}
		}
		ctx = []string{"contextual", "contextual:asc", "contextual:desc", "contextual:reverse"}
		dt = []string{"date", "date:asc", "date:desc", "date:reverse"}
	}
	var ps []pool
	mix := append(append(append([]string{}, oddText...), "1", "1.0", "10", "2", "9", "1x", "mon", "Jan", "2022-01-02", "nan"), plainWords[:4]...)
	ps = append(ps, pool{"text+odd", mix, "", append(append([]string{}, plain...), ctxIfSearched(true)...)})
	nums := append(append([]string{}, numberPool[:34]...), "1x", "x1", "", "abc", "nan", "inf")
	ps = append(ps, pool{"numbers", nums, "", append(append([]string{}, plain...), ctx...)})
	odd := append(append(append([]string{}, oddNumberish...), numberPool[34:]...), "0", "1", "a")
	ps = append(ps, pool{"numberish", odd, "", append(append([]string{}, plain...), ctx...)})
	ps = append(ps, pool{"big-integers", bigNumberPool(), "", append(append([]string{}, plain...), ctx...)})
	ps = append(ps, pool{"weekdays", withCase(weekdayNames, 40), "", append(append(append([]string{}, ctx...), dt...), "text", "numeric", "value")})
	ps = append(ps, pool{"months", withCase(monthNames, 40), "", append(append(append([]string{}, ctx...), dt...), "text", "numeric", "value:desc")})
	ps = append(ps, pool{"words", plainWords, "", append(append(append([]string{}, ctx...), dt...), "text")})
	for _, l := range dateLayouts {
		ps = append(ps, pool{"dates " + l, datePool(l), l, append(append([]string{}, dt...), "text", "numeric", "contextual", "value")})
	}
	// mixture pools: only searched while not listed as known findings
	if !known(kfContextual) {
		ps = append(ps, pool{"names+others", []string{"mon", "Tue", "wed", "thu", "fri", "sat", "sun", "jan", "Feb", "mar", "may", "dec", "abc", "u", "n", "zz", "1", "10", "2", "-5", ""}, "",
			[]string{"contextual", "contextual:desc", "date"}})
	}
	if !known(kfDate) {
		ps = append(ps, pool{"dates+others", []string{"12/01/2021", "01/01/2022", "06/15/2020", "1/2/2022", "11/12/2021", "2022-01-01", "2021-06-01", "05x", "abc", "1", "1.5", "2.5", "2022", "1999", "10", "Jan 2, 2006", "Jan 12, 2006", "mon"}, "",
			[]string{"date", "date:desc"}})
	}
	return ps
}

// ctxIfSearched: contextual/date sort names for a pool that is a mixture.
func ctxIfSearched(isMixture bool) []string {
	if !isMixture {
		return []string{"contextual", "date"}
	}
	var out []string
	if !known(kfContextual) {
		out = append(out, "contextual")
		if !known(kfDate) {
			out = append(out, "date")
		}
	}
	return out
}

var axiomSpec = pbt.Spec[AxiomCase]{
	Property: prop, Name: "axioms",
	Rule:  "bounded-exhaustive: fixed key pools (text incl. empty/non-UTF-8/NUL, number spellings, integers beyond 2^53 a few units apart (2^53.., 10^18.., 2^63-1.., both signs) plain and spelled .0 / e0 / e+NN so that several keys are one float64, things a float parser may or may not read, weekday and month names with aliases and case variants, plain words, 14 fixed-width date layouts incl. equal instants in different zones; mixture pools while not listed as known findings) x sort names (text numeric contextual date value with modifiers, NV* sorters); one case = (sort, pool, first element a), checked for every b and c of the pool: exactly one of less(a,b)/less(b,a) from fresh sorters, same answer again, same answer from a sorter that has already compared other keys, transitivity over (a,b,c). Values are spread over 3 totals so that value ties occur. Non-trivial: pool >=3 keys holding a tie class",
	Check: checkAxioms, Classify: classifyAxioms,
}

func TestAxioms(t *testing.T) {
	triples := 0
	pbt.Enum(t, axiomSpec, func(yield func(AxiomCase) bool) {
		for _, pl := range axiomPools() {
			vals := make([]int64, len(pl.keys))
			for i := range vals {
				vals[i] = int64((i*7)%3) - 1
			}
			for _, sn := range pl.modes {
				for a := range pl.keys {
					triples += len(pl.keys) * len(pl.keys)
					if !yield(AxiomCase{Sort: sn, Keys: pbt.SS(pl.keys), Vals: vals, A: a, Layout: pl.layout, Pool: pl.name}) {
						return
					}
				}
			}
		}
	})
	if k, _ := pbt.Shard(); k == 0 {
		pbt.Note(prop, "axiom_triples_enumerated_all_shards", triples)
	}
}

func genSortName(t *rapid.T) string {
	return rapid.SampledFrom(modes).Draw(t, "mode") + rapid.SampledFrom(modifiers).Draw(t, "modifier")
}

func genTriple(t *rapid.T) AxiomCase {
	sn := genSortName(t)
	if rapid.IntRange(0, 11).Draw(t, "nv") == 0 {
		sn = rapid.SampledFrom([]string{"nv:value", "nv:name", "nv:smart"}).Draw(t, "nvName")
	}
	kind := rapid.SampledFrom(kindsFor(modeOf(sn))).Draw(t, "kind")
	keys, layout := genKeySet(t, kind, 7)
	vals := make([]int64, len(keys))
	wide := rapid.IntRange(0, 3).Draw(t, "wideValues") == 0
	for i := range vals {
		if wide {
			// totals further apart than MaxInt64 (signed sums): a comparison by subtraction wraps
			vals[i] = rapid.SampledFrom([]int64{math.MinInt64, -6000000000000000000, -4611686018427387904, -1, 0, 1, 4611686018427387904, 6000000000000000000, math.MaxInt64}).Draw(t, "wval")
			continue
		}
		vals[i] = rapid.Int64Range(-1, 2).Draw(t, "val")
	}
	return AxiomCase{Sort: sn, Keys: pbt.SS(keys), Vals: vals, A: -1, Layout: layout}
}

var tripleSpec = pbt.Spec[AxiomCase]{
	Property: prop, Name: "triple",
	Rule:   "generated key sets of 2..7 keys (kind per mode: any mixture for text/numeric/value, number spellings, families of integers beyond 2^53 a few units apart in plain / .0 / e0 / e+NN / 0-prefixed spellings (label keys:beyond-2^53-one-float64: only the axioms and permutation invariance are asserted between keys that are one float64); for contextual: all weekdays | all months | no calendar name; for date: one fixed-width layout | all weekdays | all months | plain words; mixtures too while not listed as known findings) x values -1..2 x sort name; all pairs and triples checked for the comparator axioms as in `axioms`. Non-trivial: >=3 keys holding a tie class",
	Budget: pbt.Budget{Quick: 16000, Thorough: 200000},
	Gen:    genTriple, Check: checkAxioms, Classify: classifyAxioms,
}

func TestTriple(t *testing.T) { pbt.Run(t, tripleSpec) }

// --------------------------------------------------------------- perm --

type PermCase struct {
	Sort   string
	Keys   []pbt.S
	Incs   [][]int64 // increments sampled for each key (>=1 each)
	Perms  [][]int   // arrival orders: permutations of the flattened sample list
	TopN   int
	Layout string   // the date layout all keys were rendered in ("" if none)
	Obs    *pbt.Obs `json:"-"`
}

type sample struct {
	key int
	j   int
	inc int64
}

func (c PermCase) samples() []sample {
	var out []sample
	for i, l := range c.Incs {
		for j, inc := range l {
			out = append(out, sample{i, j, inc})
		}
	}
	return out
}

func (c PermCase) validate() error {
	if len(c.Incs) != len(c.Keys) {
		return fmt.Errorf("bad case: %d keys, %d increment lists", len(c.Keys), len(c.Incs))
	}
	seen := map[pbt.S]bool{}
	for i, k := range c.Keys {
		if seen[k] {
			return fmt.Errorf("bad case: duplicate key %q", string(k))
		}
		seen[k] = true
		if len(c.Incs[i]) == 0 {
			return fmt.Errorf("bad case: key %d has no sample", i)
		}
	}
	ns := len(c.samples())
	if len(c.Perms) == 0 {
		return fmt.Errorf("bad case: no permutation")
	}
	for _, p := range c.Perms {
		if len(p) != ns {
			return fmt.Errorf("bad case: permutation of length %d for %d samples", len(p), ns)
		}
		hit := make([]bool, ns)
		for _, x := range p {
			if x < 0 || x >= ns || hit[x] {
				return fmt.Errorf("bad case: not a permutation")
			}
			hit[x] = true
		}
	}
	return nil
}

func (c PermCase) totals() []int64 {
	out := make([]int64, len(c.Incs))
	for i, l := range c.Incs {
		for _, v := range l {
			out[i] += v
		}
	}
	return out
}

// arrival returns the rows (final totals) in order of first arrival.
func arrival(keys []string, totals []int64, smp []sample, perm []int) []row {
	seen := make([]bool, len(keys))
	out := make([]row, 0, len(keys))
	for _, x := range perm {
		k := smp[x].key
		if !seen[k] {
			seen[k] = true
			out = append(out, row{keys[k], totals[k]})
		}
	}
	return out
}

func mismatch(what, sortName string, perm int, got, want []row) error {
	return fmt.Errorf("%s, --sort %s: arrival order #%d of the same data gives a different sequence\n got: %v\nwant: %v (arrival order #0)", what, sortName, perm, got, want)
}

var stdKB = stdlib.NewStdKeyBuilder()

func checkPerm(c PermCase) error {
	if err := c.validate(); err != nil {
		return err
	}
	keys := pbt.Strs(c.Keys)
	mode := modeOf(c.Sort)
	totals := c.totals()
	smp := c.samples()
	n := len(keys)
	var ref []row

	for pi, perm := range c.Perms {
		arr := arrival(keys, totals, smp, perm)

		// (1) sorting.Sort on the pairs, fresh sorter
		got, err := sortRows(c.Sort, arr)
		if err != nil {
			return err
		}
		if len(got) != n {
			return fmt.Errorf("sorting.Sort returned %d rows for %d", len(got), n)
		}
		if ref == nil {
			ref = got
		} else if !sameRows(got, ref) {
			return mismatch("sorting.Sort", c.Sort, pi, got, ref)
		}

		// (2) sorting.SortBy over a wrapper, fresh sorter
		{
			type wrap struct {
				id int
				r  row
			}
			ws := make([]wrap, len(arr))
			for i, r := range arr {
				ws[i] = wrap{i, r}
			}
			s, _ := buildSorter(c.Sort)
			sorting.SortBy(ws, s, func(w wrap) pair { return pair{Name: w.r.Name, Value: w.r.Value} })
			g := make([]row, len(ws))
			for i, w := range ws {
				g[i] = w.r
			}
			if !sameRows(g, ref) {
				return mismatch("sorting.SortBy", c.Sort, pi, g, ref)
			}
		}

		// (3) the key-only sorter of the mode on plain strings
		if ns, ok := nameSorter(c.Sort); ok {
			names := namesOf(arr)
			sorting.Sort(names, ns)
			if !sameStrings(names, namesOf(ref)) {
				return fmt.Errorf("sorting.Sort on the bare keys with the %s name sorter, arrival order #%d:\n got: %q\nwant: %q (order of the name/value sorter)", c.Sort, pi, names, namesOf(ref))
			}
		}

		// (4) ONE sorter over the growing data, as the 100 ms renders of a
		// running command use it; the last render shows everything.
		{
			s, _ := buildSorter(c.Sort)
			var last []pair
			for _, cut := range []int{(n + 2) / 3, (2*n + 2) / 3, n} {
				ps := make([]pair, cut)
				for i := 0; i < cut; i++ {
					ps[i] = pair{Name: arr[i].Name, Value: arr[i].Value}
				}
				sorting.Sort(ps, s)
				last = ps
			}
			if g := rowsOf(last); !sameRows(g, ref) {
				return fmt.Errorf("one --sort %s sorter used for three renders of growing data (arrival order #%d): the final render differs from a render of the complete data\n got: %v\nwant: %v", c.Sort, pi, g, ref)
			}
		}

		// (5) MatchCounter.ItemsSortedBy (items collected from a map)
		{
			cnt := aggregation.NewCounter()
			for _, x := range perm {
				cnt.SampleValue(keys[smp[x].key], smp[x].inc)
			}
			for rep := 0; rep < 2; rep++ {
				s, _ := buildSorter(c.Sort)
				items := cnt.ItemsSortedBy(n, s)
				g := make([]row, len(items))
				for i, it := range items {
					g[i] = row{it.Name, it.Item.Count()}
				}
				if !sameRows(g, ref) {
					return mismatch("MatchCounter.ItemsSortedBy", c.Sort, pi, g, ref)
				}
			}
			if c.TopN >= 0 {
				s, _ := buildSorter(c.Sort)
				items := cnt.ItemsSortedBy(c.TopN, s)
				want := ref
				if c.TopN < n {
					want = ref[:c.TopN]
				}
				g := make([]row, len(items))
				for i, it := range items {
					g[i] = row{it.Name, it.Item.Count()}
				}
				if !sameRows(g, want) {
					return fmt.Errorf("MatchCounter.ItemsSortedBy(%d), --sort %s: the top rows are not the head of the full order\n got: %v\nwant: %v", c.TopN, c.Sort, g, want)
				}
			}
		}

		// (6) TableAggregator rows and columns
		{
			tr, tc := aggregation.NewTable("\x00"), aggregation.NewTable("\x00")
			for _, x := range perm {
				s := smp[x]
				tr.SampleItem(fmt.Sprintf("c%d", s.j), keys[s.key], s.inc)
				tc.SampleItem(keys[s.key], fmt.Sprintf("r%d", s.j), s.inc)
			}
			for rep := 0; rep < 2; rep++ {
				s1, _ := buildSorter(c.Sort)
				rows := tr.OrderedRows(s1)
				g := make([]row, len(rows))
				for i, r := range rows {
					g[i] = row{r.Name(), r.Sum()}
				}
				if !sameRows(g, ref) {
					return mismatch("TableAggregator.OrderedRows", c.Sort, pi, g, ref)
				}
				s2, _ := buildSorter(c.Sort)
				cols := tc.OrderedColumns(s2)
				g2 := make([]row, len(cols))
				for i, k := range cols {
					g2[i] = row{k, tc.ColTotal(k)}
				}
				if !sameRows(g2, ref) {
					return mismatch("TableAggregator.OrderedColumns", c.Sort, pi, g2, ref)
				}
			}
		}

		// (7) AccumulatingGroup.Groups with the key-only sorter
		if _, ok := nameSorter(c.Sort); ok {
			acc := aggregation.NewAccumulatingGroup(stdKB)
			if err := acc.AddGroupExpr("k", "{0}"); err != nil {
				return fmt.Errorf("harness: %v", err)
			}
			if err := acc.AddDataExpr("n", "{sumi {.} 1}", "0"); err != nil {
				return fmt.Errorf("harness: %v", err)
			}
			for _, x := range perm {
				acc.Sample(keys[smp[x].key])
			}
			for rep := 0; rep < 3; rep++ {
				if rep == 2 {
					// the same order through a sort expression that yields the group key
					if strings.Contains(strings.Join(keys, ""), "\x00") {
						break // {0} of a key holding the array separator is its first part only
					}
					if err := acc.SetSort("{0}"); err != nil {
						return fmt.Errorf("harness: %v", err)
					}
				}
				ns, _ := nameSorter(c.Sort)
				groups := acc.Groups(ns)
				g := make([]string, len(groups))
				for i, k := range groups {
					g[i] = string(k)
				}
				if !sameStrings(g, namesOf(ref)) {
					return fmt.Errorf("AccumulatingGroup.Groups with the %s name sorter, arrival order #%d:\n got: %q\nwant: %q", c.Sort, pi, g, namesOf(ref))
				}
			}
		}
	}

	// (8) reduce --sort over a data column: the order is a function of the
	// final groups and their values, also when the groups were read (a
	// redraw) while samples were still arriving
	if !strings.Contains(strings.Join(keys, ""), "\x00") && len(c.Perms) > 0 && len(c.Perms[0]) >= 2 {
		mk := func() (*aggregation.AccumulatingGroup, error) {
			acc := aggregation.NewAccumulatingGroup(stdKB)
			if err := acc.AddGroupExpr("k", "{0}"); err != nil {
				return nil, err
			}
			if err := acc.AddDataExpr("n", "{sumi {.} 1}", "0"); err != nil {
				return nil, err
			}
			if err := acc.SetSort("{n}"); err != nil {
				return nil, err
			}
			return acc, nil
		}
		names := func(gs []aggregation.GroupKey) []string {
			out := make([]string, len(gs))
			for i, k := range gs {
				out[i] = string(k)
			}
			return out
		}
		perm := c.Perms[0]
		oneGo, err := mk()
		if err != nil {
			return fmt.Errorf("harness: %v", err)
		}
		for _, x := range perm {
			oneGo.Sample(keys[smp[x].key])
		}
		want := names(oneGo.Groups(sorting.ByNameSmart))
		for _, cut := range []int{1, len(perm) / 2, len(perm) - 1} {
			read, err := mk()
			if err != nil {
				return fmt.Errorf("harness: %v", err)
			}
			for i, x := range perm {
				if i == cut {
					read.Groups(sorting.ByNameSmart) // an intermediate redraw
				}
				read.Sample(keys[smp[x].key])
			}
			got := names(read.Groups(sorting.ByNameSmart))
			if !sameStrings(got, want) {
				return fmt.Errorf("AccumulatingGroup.Groups sorted by the data column {n}: the groups were also read after %d of %d samples and end up in another order than without that read\n got: %q\nwant: %q", cut, len(perm), got, want)
			}
		}
	}

	// meaning of the mode, on the displayed sequence
	if err := checkMeaning(c.Sort, c.Layout, ref); err != nil {
		return err
	}

	// modifiers: exact reverse
	arr0 := arrival(keys, totals, smp, c.Perms[0])
	seq := map[string][]row{}
	for _, mod := range []string{"", ":asc", ":desc", ":reverse"} {
		name := mode + mod
		g, err := sortRows(name, arr0)
		if err != nil {
			return err
		}
		seq[mod] = g
		if err := checkMeaning(name, c.Layout, g); err != nil {
			return err
		}
	}
	if !sameRows(seq[":reverse"], reversed(seq[""])) {
		return fmt.Errorf("--sort %s:reverse is not the exact reverse of --sort %s\n%s:reverse: %v\n%s: %v", mode, mode, mode, seq[":reverse"], mode, seq[""])
	}
	if !sameRows(seq[":desc"], reversed(seq[":asc"])) {
		return fmt.Errorf("--sort %s:desc is not the exact reverse of --sort %s:asc\n:desc: %v\n :asc: %v", mode, mode, seq[":desc"], seq[":asc"])
	}
	dflt := ":asc"
	if mode == "value" {
		dflt = ":desc" // "Defaults to descending order"
	}
	if !sameRows(seq[""], seq[dflt]) {
		return fmt.Errorf("--sort %s differs from --sort %s%s\n%s: %v\n%s%s: %v", mode, mode, dflt, mode, seq[""], mode, dflt, seq[dflt])
	}

	o := c.Obs
	o.Label(hasVerdict(c.Sort, c.Layout, ref), "model-has-verdict")
	return nil
}

func permsDiffer(ps [][]int) bool {
	for i := 1; i < len(ps); i++ {
		for j := range ps[i] {
			if ps[i][j] != ps[0][j] {
				return true
			}
		}
	}
	return false
}

func classifyPerm(c PermCase) (bool, []string) {
	keys := pbt.Strs(c.Keys)
	ties := tieClasses(keys, c.totals(), c.Layout)
	kind := classifyKeys(keys, c.Layout)
	mode, mod, _ := strings.Cut(c.Sort, ":")
	labels := []string{"mode:" + mode, "modifier:" + mod, "kind:" + kind, mode + "/" + kind}
	labels = append(labels, ties...)
	if beyond2p53(keys) {
		labels = append(labels, "keys:beyond-2^53-one-float64")
	}
	labels = append(labels, c.Obs.All()...)
	if key, in := inKnownClass(mode, keys, c.Layout); in {
		labels = append(labels, "class:"+key)
	}
	if c.Layout != "" {
		labels = append(labels, "layout:"+c.Layout)
	}
	switch {
	case len(keys) >= 12:
		labels = append(labels, "keys>=12")
	case len(keys) >= 5:
		labels = append(labels, "keys5..11")
	default:
		labels = append(labels, "keys<5")
	}
	if c.TopN >= 0 && c.TopN < len(keys) {
		labels = append(labels, "top-n-cuts")
	}
	return len(keys) >= 5 && len(c.Perms) >= 2 && permsDiffer(c.Perms) && len(ties) > 0, labels
}

func genData(t *rapid.T, sortName string, maxKeys int, incLo, incHi int64) (keys []string, layout string, incs [][]int64) {
	kind := rapid.SampledFrom(kindsFor(modeOf(sortName))).Draw(t, "kind")
	keys, layout = genKeySet(t, kind, maxKeys)
	incs = make([][]int64, len(keys))
	for i := range incs {
		m := rapid.SampledFrom([]int{1, 1, 1, 2, 3}).Draw(t, "nInc")
		for j := 0; j < m; j++ {
			incs[i] = append(incs[i], rapid.Int64Range(incLo, incHi).Draw(t, "inc"))
		}
	}
	return
}

func genPerms(t *rapid.T, ns int, lo, hi int) [][]int {
	ident := make([]int, ns)
	for i := range ident {
		ident[i] = i
	}
	k := rapid.IntRange(lo, hi).Draw(t, "nPerms")
	out := make([][]int, k)
	for i := range out {
		switch rapid.IntRange(0, 5).Draw(t, "permForm") {
		case 0:
			out[i] = append([]int(nil), ident...)
		case 1:
			p := append([]int(nil), ident...)
			for a, b := 0, len(p)-1; a < b; a, b = a+1, b-1 {
				p[a], p[b] = p[b], p[a]
			}
			out[i] = p
		default:
			out[i] = rapid.Permutation(ident).Draw(t, "perm")
		}
	}
	return out
}

func genPerm(t *rapid.T) PermCase {
	c := PermCase{Obs: pbt.NewObs()}
	c.Sort = genSortName(t)
	maxKeys := 12
	if rapid.IntRange(0, 3).Draw(t, "large") == 0 {
		maxKeys = 28 // beyond 12 elements sort.Sort leaves insertion sort
	}
	keys, layout, incs := genData(t, c.Sort, maxKeys, -2, 3)
	if rapid.IntRange(0, 4).Draw(t, "wideTotals") == 0 {
		// totals further apart than MaxInt64 (one increment each, so nothing wraps)
		for i := range incs {
			if rapid.Bool().Draw(t, "wide") {
				incs[i] = []int64{rapid.SampledFrom([]int64{math.MinInt64, -6000000000000000000, -4611686018427387904, 4611686018427387904, 6000000000000000000, math.MaxInt64}).Draw(t, "wval")}
			}
		}
	}
	c.Keys, c.Layout, c.Incs = pbt.SS(keys), layout, incs
	c.Perms = genPerms(t, len(c.samples()), 2, 4)
	c.TopN = rapid.IntRange(-1, len(keys)+1).Draw(t, "topN")
	return c
}

var permSpec = pbt.Spec[PermCase]{
	Property: prop, Name: "perm",
	Rule:   "key set of 2..28 distinct keys (kind per mode as in `triple`) x 1..3 increments in -2..3 per key (totals tie often) x 2..4 arrival orders (permutations of the sample list) x sort name with modifier; every arrival order must give ONE sequence through sorting.Sort, sorting.SortBy, the bare name sorter, one sorter reused over three growing renders, MatchCounter.ItemsSortedBy (twice, + top-N = head of the full order), TableAggregator.OrderedRows/OrderedColumns (twice), AccumulatingGroup.Groups (twice); the sequence must not contradict the documented meaning of the mode (partial model); :reverse/:desc/:asc must be the exact reverse / the default. Non-trivial: >=5 keys, >=2 arrival orders that differ, >=1 tie class (equal totals, equal magnitudes in different spellings, alias or case-variant names, equal instants, prefix/case-variant text)",
	Budget: pbt.Budget{Quick: 40000, Thorough: 500000},
	Gen:    genPerm, Check: checkPerm, Classify: classifyPerm,
}

func TestPerm(t *testing.T) { pbt.Run(t, permSpec) }

// ---------------------------------------------------------------- cli --

type CliCase struct {
	Cmd     string // histo | table
	Sort    string
	ColSort string `json:",omitempty"` // table: --sort-cols ("" = the same as --sort-rows)
	Keys    []pbt.S
	Incs    [][]int64
	Perms   [][]int
	Files   int
	Layout  string
	Obs     *pbt.Obs `json:"-"`
}

func cliSafe(k string, noSpace bool) bool {
	if k == "" || k[0] == ' ' || k[len(k)-1] == ' ' {
		return false
	}
	for i := 0; i < len(k); i++ {
		c := k[i]
		if c == ' ' {
			if noSpace || k[i-1] == ' ' {
				return false
			}
			continue
		}
		if c < 0x21 || c > 0x7e {
			return false
		}
	}
	return true
}

var cliSeq int

func runRare(args []string) (string, error) {
	bin := os.Getenv("VERIF_RARE_BIN")
	cmd := exec.Command(bin, args...)
	var out, errb bytes.Buffer
	cmd.Stdout, cmd.Stderr = &out, &errb
	cmd.Env = append(os.Environ(), "NO_COLOR=1", "TERM=dumb")
	if err := cmd.Run(); err != nil {
		return out.String(), fmt.Errorf("rare %q: %v\nstdout: %s\nstderr: %s", args, err, pbt.Trunc(out.String(), 600), pbt.Trunc(errb.String(), 600))
	}
	return out.String(), nil
}

// parseHisto reads "key<pad>count<pad>" rows up to the summary line.
func parseHisto(out string) ([]row, error) {
	var rows []row
	for _, line := range strings.Split(out, "\n") {
		l := strings.TrimRight(line, " ")
		if strings.HasPrefix(l, "Matched: ") {
			return rows, nil
		}
		if l == "" {
			continue
		}
		i := strings.LastIndexByte(l, ' ')
		if i < 0 {
			return nil, fmt.Errorf("cannot parse histogram row %q", line)
		}
		var v int64
		if _, err := fmt.Sscanf(l[i+1:], "%d", &v); err != nil {
			return nil, fmt.Errorf("cannot parse count of histogram row %q", line)
		}
		rows = append(rows, row{strings.TrimRight(l[:i], " "), v})
	}
	return nil, fmt.Errorf("no summary line in output:\n%s", pbt.Trunc(out, 600))
}

// parseTable reads the header (column keys) and the first field of each row.
func parseTable(out string) (cols, rows []string, err error) {
	lines := strings.Split(out, "\n")
	if len(lines) == 0 {
		return nil, nil, fmt.Errorf("empty output")
	}
	cols = strings.Fields(lines[0])
	for _, line := range lines[1:] {
		if strings.HasPrefix(line, "Matched: ") {
			return cols, rows, nil
		}
		f := strings.Fields(line)
		if len(f) == 0 {
			continue
		}
		rows = append(rows, f[0])
	}
	return nil, nil, fmt.Errorf("no summary line in output:\n%s", pbt.Trunc(out, 600))
}

func checkCli(c CliCase) error {
	bin := os.Getenv("VERIF_RARE_BIN")
	if bin == "" {
		return fmt.Errorf("harness: VERIF_RARE_BIN is not set")
	}
	pc := PermCase{Sort: c.Sort, Keys: c.Keys, Incs: c.Incs, Perms: c.Perms, Layout: c.Layout}
	if err := pc.validate(); err != nil {
		return err
	}
	keys := pbt.Strs(c.Keys)
	for _, k := range keys {
		if !cliSafe(k, c.Cmd == "table") {
			return fmt.Errorf("bad case: key %q cannot be carried through the command line layer", k)
		}
	}
	for _, l := range c.Incs {
		for _, v := range l {
			if v < 1 {
				return fmt.Errorf("bad case: increment %d", v)
			}
		}
	}
	totals := pc.totals()
	smp := pc.samples()
	files := c.Files
	if files < 1 {
		files = 1
	}
	dir := os.Getenv("VERIF_SCRATCH")
	if dir == "" {
		dir = os.TempDir()
	}
	cliSeq++
	dir = filepath.Join(dir, fmt.Sprintf("c13cli-%d-%d", os.Getpid(), cliSeq))
	if err := os.MkdirAll(dir, 0o755); err != nil {
		return fmt.Errorf("harness: %v", err)
	}
	defer os.RemoveAll(dir)

	// expected: the library order of the same data (fresh in-process sorter)
	want, err := sortRows(c.Sort, arrival(keys, totals, smp, c.Perms[0]))
	if err != nil {
		return err
	}
	if err := checkMeaning(c.Sort, c.Layout, want); err != nil {
		return err
	}

	for pi, perm := range c.Perms {
		bufs := make([]bytes.Buffer, files)
		for i, x := range perm {
			s := smp[x]
			f := i * files / len(perm) // contiguous slices of the arrival order
			if c.Cmd == "table" {
				fmt.Fprintf(&bufs[f], "%s %s %d\n", keys[s.key], keys[s.key], s.inc)
			} else {
				fmt.Fprintf(&bufs[f], "%s %d\n", keys[s.key], s.inc)
			}
		}
		var paths []string
		for i := range bufs {
			p := filepath.Join(dir, fmt.Sprintf("p%d-f%d.log", pi, i))
			if err := os.WriteFile(p, bufs[i].Bytes(), 0o644); err != nil {
				return fmt.Errorf("harness: %v", err)
			}
			paths = append(paths, p)
		}
		nArg := fmt.Sprint(len(keys) + 3)
		switch c.Cmd {
		case "table":
			colSort := c.Sort
			wantCols := want
			if c.ColSort != "" {
				// rows and columns ordered by different specifications: each axis follows its own
				colSort = c.ColSort
				wc, err := sortRows(colSort, arrival(keys, totals, smp, c.Perms[0]))
				if err != nil {
					return err
				}
				wantCols = wc
			}
			args := append([]string{"--nocolor", "--noformat", "table", "--snapshot", "-m", `^(\S+) (\S+) (\d+)$`, "-e", "{1}", "-e", "{2}", "-e", "{3}",
				"--sort-rows", c.Sort, "--sort-cols", colSort, "--rows", nArg, "--cols", nArg}, paths...)
			out, err := runRare(args)
			if err != nil {
				return err
			}
			cols, rows, err := parseTable(out)
			if err != nil {
				return err
			}
			if !sameStrings(rows, namesOf(want)) {
				return fmt.Errorf("rare table --sort-rows %s, arrival order #%d over %d file(s): row order\n got: %q\nwant: %q (library order of the same data)\noutput:\n%s", c.Sort, pi, files, rows, namesOf(want), pbt.Trunc(out, 1500))
			}
			if !sameStrings(cols, namesOf(wantCols)) {
				return fmt.Errorf("rare table --sort-rows %s --sort-cols %s, arrival order #%d over %d file(s): column order\n got: %q\nwant: %q (library order of the same data)\noutput:\n%s", c.Sort, colSort, pi, files, cols, namesOf(wantCols), pbt.Trunc(out, 1500))
			}
		default:
			args := append([]string{"--nocolor", "--noformat", "histo", "--snapshot", "-m", `^(.*) (\d+)$`, "-e", "{1}", "-e", "{2}",
				"--sort", c.Sort, "-n", nArg}, paths...)
			out, err := runRare(args)
			if err != nil {
				return err
			}
			got, err := parseHisto(out)
			if err != nil {
				return err
			}
			if !sameRows(got, want) {
				return fmt.Errorf("rare histo --sort %s, arrival order #%d over %d file(s): rows\n got: %v\nwant: %v (library order of the same data)\noutput:\n%s", c.Sort, pi, files, got, want, pbt.Trunc(out, 1500))
			}
		}
	}
	c.Obs.Label(hasVerdict(c.Sort, c.Layout, want), "model-has-verdict")
	return nil
}

func classifyCli(c CliCase) (bool, []string) {
	keys := pbt.Strs(c.Keys)
	pc := PermCase{Incs: c.Incs}
	ties := tieClasses(keys, pc.totals(), c.Layout)
	mode, mod, _ := strings.Cut(c.Sort, ":")
	labels := []string{"cmd:" + c.Cmd, "mode:" + mode, "modifier:" + mod, "kind:" + classifyKeys(keys, c.Layout), fmt.Sprintf("files:%d", c.Files)}
	labels = append(labels, ties...)
	labels = append(labels, c.Obs.All()...)
	if key, in := inKnownClass(mode, keys, c.Layout); in {
		labels = append(labels, "class:"+key)
	}
	return len(keys) >= 5 && len(c.Perms) >= 2 && permsDiffer(c.Perms) && len(ties) > 0, labels
}

func genCli(t *rapid.T) CliCase {
	c := CliCase{Obs: pbt.NewObs()}
	c.Cmd = rapid.SampledFrom([]string{"histo", "histo", "table"}).Draw(t, "cmd")
	c.Sort = genSortName(t)
	if c.Cmd == "table" && rapid.Bool().Draw(t, "otherColSort") {
		// the same mode in the other direction for the columns
		if strings.Contains(c.Sort, ":") {
			c.ColSort = modeOf(c.Sort)
		} else {
			c.ColSort = c.Sort + rapid.SampledFrom([]string{":reverse", ":desc", ":asc"}).Draw(t, "colmod")
		}
	}
	keys, layout, incs := genData(t, c.Sort, 12, 1, 3)
	// constructed for the command line: keep printable keys, re-spell the rest
	var ks []string
	var is [][]int64
	seen := map[string]bool{}
	for i, k := range keys {
		if !cliSafe(k, c.Cmd == "table") {
			if layout != "" || isName(k) {
				continue // a date with a blank in table mode: leave the key out
			}
			k = strings.Map(func(r rune) rune {
				if r <= 0x20 || r > 0x7e {
					return '_'
				}
				return r
			}, k)
			if k == "" {
				k = "_"
			}
		}
		if seen[k] {
			continue
		}
		seen[k] = true
		ks = append(ks, k)
		is = append(is, incs[i])
	}
	if len(ks) == 0 {
		ks, is = []string{"ab", "zz"}, [][]int64{{1}, {2}}
		layout = ""
	}
	c.Keys, c.Incs, c.Layout = pbt.SS(ks), is, layout
	pc := PermCase{Incs: is}
	c.Perms = genPerms(t, len(pc.samples()), 2, 3)
	c.Files = rapid.IntRange(1, 3).Draw(t, "files")
	return c
}

var cliSpec = pbt.Spec[CliCase]{
	Property: prop, Name: "cli",
	Rule:   "`rare histo --snapshot --sort S` and `rare table --snapshot --sort-rows S --sort-cols S` on 1..3 files holding the sample lines of 2..12 printable-ASCII keys (kinds per mode as in `perm`) in 2..3 arrival orders; displayed rows (and columns) must equal the library order of the same data in every run, and the model of the mode. Non-trivial: >=5 keys, arrival orders differ, a tie class present",
	Budget: pbt.Budget{Quick: 400, Thorough: 3200},
	Gen:    genCli, Check: checkCli, Classify: classifyCli,
	Watchdog: 120 * time.Second, NoWatchdogViolation: true,
}

func TestCli(t *testing.T) { pbt.Run(t, cliSpec) }

// ------------------------------------------------------ known findings --

// Witnesses of the two classes this property may list as known findings:
// each returns an error iff the defect is (still) present.
func witnessContextual() error {
	return axioms(AxiomCase{Sort: "contextual", Keys: pbt.SS([]string{"wed", "thu", "u"}), Vals: []int64{0, 0, 0}, A: -1})
}

func witnessDate() error {
	return axioms(AxiomCase{Sort: "date", Keys: pbt.SS([]string{"12/01/2021", "01/01/2022", "05x"}), Vals: []int64{0, 0, 0}, A: -1})
}

func TestKnownFindings(t *testing.T) {
	if os.Getenv("VERIF_REPLAY") != "" {
		t.Skip()
	}
	pbt.ReportKnown(prop, kfContextual, witnessContextual)
	pbt.ReportKnown(prop, kfDate, witnessDate)
}
