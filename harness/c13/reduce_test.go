// C13, "reduce" / "reduce-cli": the row order of `rare reduce --sort <expr>
// [--sort-reverse]` when the sort expression gives the SAME value for several
// groups (a data column with few distinct values, a constant, a group part that
// several groups share).
//
// The sort value does not tell tied groups apart, so whatever the comparator
// does for them decides whether the output is a function of the data ("any two
// distinct keys are ordered the same way every time ... never on arrival order
// or hash-map iteration") - in both directions, because `--sort-reverse` is
// built as the negation of a sorter (sorting.Reverse), which answers "less" for
// two equal values.
//
// Asserted: one sequence per direction for every arrival order, every repeated
// read and every run; pairs of groups whose sort values DIFFER are in opposite
// order in the two directions ("reversing reverses the order"; without ties the
// reverse read is the exact mirror); two plain numbers with different values are
// in magnitude order, two plain words in dictionary order (forward read).
// NOT asserted: which of two tied groups comes first, and whether
// --sort-reverse also turns the tied groups around - the documents do not say;
// only that it is the same every time (labels rev-ties:*).
//
// Sort values are plain numbers or plain words throughout (no calendar names:
// known finding contextual-mixture).
//
// Sort kind "none": NO --sort expression, 1..3 group columns of DIFFERENT kinds
// (one column weekday names, another status-code-like numbers, a third plain
// words). Every column on its own is uniform - all weekday names, all month
// names, or no calendar name at all - so with one column this is the documented
// contextual order, and with several columns it is NOT the contextual-mixture
// class: the sorter is handed whole group keys, and a key of several columns is
// never a calendar name. Asserted there: one sequence per direction for every
// arrival order, read and run; the reversed sequence is the exact mirror (group
// keys are distinct); with ONE column the forward order follows the calendar /
// magnitude / dictionary rules of the model. How keys of several columns are
// ordered among each other (as one string, column by column) is not stated and
// not asserted.
package c13

import (
	"bytes"
	"fmt"
	"os"
	"path/filepath"
	"strconv"
	"strings"
	"testing"
	"time"

	"pgregory.net/rapid"
	"rare/pkg/aggregation"
	"rare/pkg/aggregation/sorting"
	"verifharness/pbt"
)

type ReduceCase struct {
	Parts [][]pbt.S // Parts[g]: the 1 or 2 group values of group g (same arity for all, distinct)
	Incs  [][]int64 // Incs[g]: the numbers of the lines of group g (>= 1 line each)
	Perms [][]int   // arrival orders of the lines
	Sort  string    // n | s | const | lohi | part0 | part1 | none (no --sort expression: group order)
	Const string    `json:",omitempty"`
	Cut   int       // in-process: the groups are also read after this many lines
	Files int       `json:",omitempty"` // cli: the lines are spread over this many files
	Obs   *pbt.Obs  `json:"-"`
}

const lohiSplit = 2

func (c ReduceCase) arity() int {
	if len(c.Parts) == 0 {
		return 0
	}
	return len(c.Parts[0])
}

// sortExpr: the --sort expression and the value it has for every group once
// all lines are in (worked out from the data, not by running rare).
func (c ReduceCase) sortExpr() (string, []string, error) {
	vals := make([]string, len(c.Parts))
	sum := func(g int) int64 {
		var s int64
		for _, v := range c.Incs[g] {
			s += v
		}
		return s
	}
	var expr string
	for g := range c.Parts {
		switch c.Sort {
		case "n":
			expr, vals[g] = "{n}", strconv.Itoa(len(c.Incs[g]))
		case "s":
			expr, vals[g] = "{s}", strconv.FormatInt(sum(g), 10)
		case "const":
			expr, vals[g] = c.Const, c.Const
		case "lohi":
			expr = fmt.Sprintf("{if {lt {s} %d} lo hi}", lohiSplit)
			vals[g] = "hi"
			if sum(g) < lohiSplit {
				vals[g] = "lo"
			}
		case "none":
			expr, vals[g] = "", strings.Join(pbt.Strs(c.Parts[g]), "|") // the group itself (distinct; no NUL in messages)
		case "part0":
			expr, vals[g] = "{0}", string(c.Parts[g][0])
		case "part1":
			if c.arity() < 2 {
				return "", nil, fmt.Errorf("bad case: sort by the second group value of one-value groups")
			}
			expr, vals[g] = "{1}", string(c.Parts[g][1])
		default:
			return "", nil, fmt.Errorf("bad case: sort kind %q", c.Sort)
		}
	}
	return expr, vals, nil
}

func plainPart(s string) bool {
	if s == "" || isName(s) {
		return false
	}
	if allLetters(s) {
		switch asciiLower(s) {
		case "nan", "inf", "infinity":
			return false
		}
		return true
	}
	_, ok := numberOf(s)
	return ok && len(s) <= 12 && !strings.ContainsAny(s, "eE+")
}

// columnKind: what one group column holds throughout: "weekdays", "months",
// "plain" (plain words / plain numbers, no calendar name), or "" (a mixture or
// something else: not a column this sub-property is about).
func (c ReduceCase) columnKind(col int) string {
	wd, mo, pl := true, true, true
	for _, p := range c.Parts {
		x := string(p[col])
		if _, ok := weekdayOf(x); !ok {
			wd = false
		}
		if _, ok := monthOf(x); !ok {
			mo = false
		}
		if !plainPart(x) {
			pl = false
		}
	}
	switch {
	case pl:
		return "plain"
	case wd:
		return "weekdays"
	case mo:
		return "months"
	}
	return ""
}

func (c ReduceCase) columnKinds() []string {
	out := make([]string, c.arity())
	for i := range out {
		out[i] = c.columnKind(i)
	}
	return out
}

func (c ReduceCase) validate() error {
	if len(c.Parts) < 1 || len(c.Parts) != len(c.Incs) {
		return fmt.Errorf("bad case: %d groups, %d line lists", len(c.Parts), len(c.Incs))
	}
	ar := c.arity()
	if ar < 1 || ar > 3 {
		return fmt.Errorf("bad case: %d group values", ar)
	}
	seen := map[string]bool{}
	for g, p := range c.Parts {
		if len(p) != ar {
			return fmt.Errorf("bad case: group %d has %d values, group 0 has %d", g, len(p), ar)
		}
		for _, x := range p {
			if !plainPart(string(x)) && !(c.Sort == "none" && isName(string(x))) {
				return fmt.Errorf("bad case: group value %q is not a plain word or plain number", string(x))
			}
		}
		k := strings.Join(pbt.Strs(p), "\x00")
		if seen[k] {
			return fmt.Errorf("bad case: duplicate group %q", k)
		}
		seen[k] = true
		if len(c.Incs[g]) == 0 {
			return fmt.Errorf("bad case: group %d has no line", g)
		}
		for _, v := range c.Incs[g] {
			if v < -1000 || v > 1000 {
				return fmt.Errorf("bad case: number %d", v)
			}
		}
	}
	if c.Sort == "none" {
		for col, k := range c.columnKinds() {
			if k == "" {
				return fmt.Errorf("bad case: group column %d mixes calendar names with other values (known finding %s reaches it when it is the only column)", col, kfContextual)
			}
		}
	}
	if c.Sort == "const" && !plainPart(c.Const) {
		return fmt.Errorf("bad case: constant %q", c.Const)
	}
	pc := PermCase{Incs: c.Incs}
	ns := len(pc.samples())
	if len(c.Perms) == 0 {
		return fmt.Errorf("bad case: no arrival order")
	}
	for _, p := range c.Perms {
		if len(p) != ns {
			return fmt.Errorf("bad case: arrival order of length %d for %d lines", len(p), ns)
		}
		hit := make([]bool, ns)
		for _, x := range p {
			if x < 0 || x >= ns || hit[x] {
				return fmt.Errorf("bad case: not a permutation")
			}
			hit[x] = true
		}
	}
	return nil
}

func (c ReduceCase) groupKey(g int) string { return strings.Join(pbt.Strs(c.Parts[g]), "\x00") }

func showGroups(gs []string) string {
	out := make([]string, len(gs))
	for i, g := range gs {
		out[i] = strings.ReplaceAll(g, "\x00", "|")
	}
	return "[" + strings.Join(out, " ") + "]"
}

func showWithValues(gs []string, sv map[string]string) string {
	out := make([]string, len(gs))
	for i, g := range gs {
		out[i] = strings.ReplaceAll(g, "\x00", "|") + "(" + sv[g] + ")"
	}
	return "[" + strings.Join(out, " ") + "]"
}

// checkDirections: the relations between the forward and the reversed sequence
// and the model of the forward one. what names the observation point.
func (c ReduceCase) checkDirections(what, expr string, sv map[string]string, fwd, rev []string) error {
	n := len(c.Parts)
	for _, seq := range [][]string{fwd, rev} {
		if len(seq) != n {
			return fmt.Errorf("%s --sort %s: %d rows for %d groups: %s", what, expr, len(seq), n, showGroups(seq))
		}
		seen := map[string]bool{}
		for _, g := range seq {
			if _, ok := sv[g]; !ok || seen[g] {
				return fmt.Errorf("%s --sort %s: row %q is no group of the data or appears twice: %s", what, expr, g, showGroups(seq))
			}
			seen[g] = true
		}
	}
	// forward: magnitude order of plain numbers / dictionary order of plain words;
	// without --sort and with ONE group column: the contextual rules (calendar
	// order of a column of names); several columns: not stated
	rule := numericRule
	if c.Sort == "none" {
		ks := summarise(fwd, "")
		rule = func(a, b string) int { return contextualRule(ks, a, b) }
		if c.arity() > 1 {
			rule = func(a, b string) int { return noSay }
		}
	}
	for i := 0; i < n; i++ {
		for j := i + 1; j < n; j++ {
			if rule(sv[fwd[i]], sv[fwd[j]]) == bFirst {
				return fmt.Errorf("%s --sort %s: group %q (sort value %s) is shown before %q (sort value %s)\n rows: %s", what, expr,
					strings.ReplaceAll(fwd[i], "\x00", "|"), sv[fwd[i]], strings.ReplaceAll(fwd[j], "\x00", "|"), sv[fwd[j]], showWithValues(fwd, sv))
			}
		}
	}
	// reversed: every pair with different sort values the other way round
	pos := map[string]int{}
	for i, g := range rev {
		pos[g] = i
	}
	ties, mirrored, kept := false, true, true
	for i := 0; i < n; i++ {
		for j := i + 1; j < n; j++ {
			a, b := fwd[i], fwd[j]
			if sv[a] == sv[b] {
				ties = true
				if pos[a] < pos[b] {
					mirrored = false
				} else {
					kept = false
				}
				continue
			}
			if pos[a] < pos[b] {
				return fmt.Errorf("%s --sort %s: groups %q (sort value %s) and %q (sort value %s) are in the same order with and without --sort-reverse\n forward: %s\nreversed: %s", what, expr,
					strings.ReplaceAll(a, "\x00", "|"), sv[a], strings.ReplaceAll(b, "\x00", "|"), sv[b], showWithValues(fwd, sv), showWithValues(rev, sv))
			}
		}
	}
	if ties {
		c.Obs.Label(mirrored, "rev-ties:mirrored")
		c.Obs.Label(kept, "rev-ties:kept-as-forward")
		c.Obs.Label(!mirrored && !kept, "rev-ties:other")
	}
	return nil
}

func (c ReduceCase) valuesByGroup(vals []string) map[string]string {
	sv := map[string]string{}
	for g := range c.Parts {
		sv[c.groupKey(g)] = vals[g]
	}
	return sv
}

// ------------------------------------------------------------ in-process --

func checkReduce(c ReduceCase) error {
	if err := c.validate(); err != nil {
		return err
	}
	exprArg, vals, err := c.sortExpr()
	if err != nil {
		return err
	}
	expr := exprArg
	if expr == "" {
		expr = "<none: group order>" // in messages
	}
	sv := c.valuesByGroup(vals)
	pc := PermCase{Incs: c.Incs}
	smp := pc.samples()
	ar := c.arity()

	mk := func() (*aggregation.AccumulatingGroup, error) {
		acc := aggregation.NewAccumulatingGroup(stdKB)
		for i := 0; i < ar; i++ {
			if err := acc.AddGroupExpr(fmt.Sprintf("g%d", i), fmt.Sprintf("{%d}", i+1)); err != nil {
				return nil, err
			}
		}
		if err := acc.AddDataExpr("s", fmt.Sprintf("{sumi {.} {%d}}", ar+1), "0"); err != nil {
			return nil, err
		}
		if err := acc.AddDataExpr("n", "{sumi {.} 1}", "0"); err != nil {
			return nil, err
		}
		if exprArg != "" {
			if err := acc.SetSort(exprArg); err != nil {
				return nil, err
			}
		}
		return acc, nil
	}
	line := func(s sample) string {
		return c.groupKey(s.key) + "\x00" + strconv.FormatInt(s.inc, 10)
	}
	names := func(gs []aggregation.GroupKey) []string {
		out := make([]string, len(gs))
		for i, k := range gs {
			out[i] = string(k)
		}
		return out
	}

	var refF, refR, refC []string
	same := func(ref *[]string, got []string, dir, how string, pi int) error {
		if *ref == nil {
			*ref = got
			return nil
		}
		if !sameStrings(got, *ref) {
			return fmt.Errorf("AccumulatingGroup.Groups, sort expression %s, %s: %s (arrival order #%d) gives another sequence than the first read of the same data\n got: %s\nwant: %s", expr, dir, how, pi, showWithValues(got, sv), showWithValues(*ref, sv))
		}
		return nil
	}

	for pi, perm := range c.Perms {
		// as cmd/reduce.go builds them: ONE sorter per run, used for every redraw
		accF, e1 := mk()
		accR, e2 := mk()
		accB, e3 := mk()
		for _, e := range []error{e1, e2, e3} {
			if e != nil {
				return fmt.Errorf("harness: %v", e)
			}
		}
		sortF := sorting.ByContextual()
		sortR := sorting.Reverse(sorting.ByContextual())
		for i, x := range perm {
			if i == c.Cut && i > 0 {
				accF.Groups(sortF) // a redraw while lines are still arriving
				accR.Groups(sortR)
			}
			l := line(smp[x])
			accF.Sample(l)
			accR.Sample(l)
			accB.Sample(l)
		}
		for rep := 0; rep < 3; rep++ {
			if err := same(&refF, names(accF.Groups(sortF)), "forward", fmt.Sprintf("read %d of a run", rep+1), pi); err != nil {
				return err
			}
			if err := same(&refR, names(accR.Groups(sortR)), "reversed (sorting.Reverse(sorting.ByContextual()))", fmt.Sprintf("read %d of a run", rep+1), pi); err != nil {
				return err
			}
		}
		// one accumulator asked in both directions and by the csv writer's sorter, fresh sorters
		for rep := 0; rep < 2; rep++ {
			if err := same(&refF, names(accB.Groups(sorting.ByContextual())), "forward", "one accumulator read in both directions", pi); err != nil {
				return err
			}
			if err := same(&refR, names(accB.Groups(sorting.Reverse(sorting.ByContextual()))), "reversed (sorting.Reverse(sorting.ByContextual()))", "one accumulator read in both directions", pi); err != nil {
				return err
			}
			if err := same(&refC, names(accB.Groups(sorting.ByName)), "sorting.ByName (the csv export)", "one accumulator read in both directions", pi); err != nil {
				return err
			}
		}
	}
	if err := c.checkDirections("AccumulatingGroup.Groups", expr, sv, refF, refR); err != nil {
		return err
	}
	for i := 0; i < len(refC); i++ {
		for j := i + 1; j < len(refC); j++ {
			if textRule(sv[refC[i]], sv[refC[j]]) == bFirst {
				return fmt.Errorf("AccumulatingGroup.Groups(sorting.ByName), sort expression %s: group %q (sort value %s) comes before %q (sort value %s)\n rows: %s", expr,
					refC[i], sv[refC[i]], refC[j], sv[refC[j]], showWithValues(refC, sv))
			}
		}
	}
	return nil
}

func classifyReduce(c ReduceCase) (bool, []string) {
	labels := []string{"sort:" + c.Sort, fmt.Sprintf("group-values:%d", c.arity())}
	_, vals, err := c.sortExpr()
	if err != nil || len(vals) == 0 {
		return false, labels
	}
	if c.Sort == "none" {
		// group order: non-trivial when the columns are of different kinds, one of
		// them calendar names, and two groups share the first column
		kinds := c.columnKinds()
		names, other := false, false
		for _, k := range kinds {
			if k == "weekdays" || k == "months" {
				names = true
			} else {
				other = true
			}
		}
		first := map[string]int{}
		shared := false
		for _, p := range c.Parts {
			first[string(p[0])]++
			if first[string(p[0])] >= 2 {
				shared = true
			}
		}
		labels = append(labels, "columns:"+strings.Join(kinds, "+"))
		if names && other {
			labels = append(labels, "group-order:names-column-next-to-other-column")
		}
		if c.Files > 0 {
			labels = append(labels, fmt.Sprintf("files:%d", c.Files))
		}
		labels = append(labels, c.Obs.All()...)
		if c.arity() == 1 {
			return len(vals) >= 4 && len(c.Perms) >= 2 && permsDiffer(c.Perms), labels
		}
		return len(vals) >= 4 && names && other && shared && len(c.Perms) >= 2 && permsDiffer(c.Perms), labels
	}
	count := map[string]int{}
	for _, v := range vals {
		count[v]++
	}
	maxTie, tied := 0, 0
	for _, n := range count {
		if n > maxTie {
			maxTie = n
		}
		if n >= 2 {
			tied += n
		}
	}
	switch {
	case maxTie <= 1:
		labels = append(labels, "no-ties")
	case maxTie == len(vals):
		labels = append(labels, "all-tied")
	case maxTie == 2:
		labels = append(labels, "largest-tie:2")
	case maxTie <= 4:
		labels = append(labels, "largest-tie:3-4")
	default:
		labels = append(labels, "largest-tie:5+")
	}
	if len(count) >= 2 && maxTie >= 2 {
		labels = append(labels, "ties-and-differences")
	}
	if _, ok := numberOf(vals[0]); ok {
		labels = append(labels, "values:numbers")
	} else {
		labels = append(labels, "values:words")
	}
	switch {
	case len(vals) >= 9:
		labels = append(labels, "groups>=9")
	case len(vals) >= 4:
		labels = append(labels, "groups4..8")
	default:
		labels = append(labels, "groups<4")
	}
	if c.Files > 0 {
		labels = append(labels, fmt.Sprintf("files:%d", c.Files))
	}
	labels = append(labels, c.Obs.All()...)
	return len(vals) >= 4 && maxTie >= 2 && len(c.Perms) >= 2 && permsDiffer(c.Perms), labels
}

var reduceWords = []string{"abc", "foo", "zed", "x", "hello", "ab", "a", "b", "zz", "qux", "w", "k", "lorem", "ipsum", "Abc", "FOO"}

func genPlain(t *rapid.T, numbers bool, few bool) string {
	if numbers {
		if few {
			return rapid.SampledFrom([]string{"1", "2", "10"}).Draw(t, "fewNum")
		}
		if rapid.IntRange(0, 5).Draw(t, "decimal") == 0 {
			return rapid.SampledFrom([]string{"1.5", "0.5", "2.0", "10.0", "-1.5", "09", "007"}).Draw(t, "dec")
		}
		return strconv.Itoa(rapid.IntRange(-9, 30).Draw(t, "int"))
	}
	if few {
		return rapid.SampledFrom([]string{"ab", "foo", "x"}).Draw(t, "fewWord")
	}
	return rapid.SampledFrom(reduceWords).Draw(t, "word")
}

// genColumnValue: one value of a group column of the given kind; few: from a
// handful of values, so that several groups share it.
func genColumnValue(t *rapid.T, kind string, few bool) string {
	switch kind {
	case "weekdays":
		if few {
			return rapid.SampledFrom([]string{"mon", "tue", "Sat", "friday"}).Draw(t, "fewDay")
		}
		return genWeekday(t)
	case "months":
		if few {
			return rapid.SampledFrom([]string{"jan", "feb", "Dec", "august"}).Draw(t, "fewMonth")
		}
		return genMonth(t)
	case "codes":
		return rapid.SampledFrom([]string{"200", "201", "204", "301", "302", "404", "500", "503", "99", "1000"}).Draw(t, "code")
	case "numbers":
		return genPlain(t, true, few)
	}
	return genPlain(t, false, few)
}

// genGroupOrder: no --sort expression; 1..3 group columns, each uniform, of
// different kinds (calendar names next to numbers / words).
func genGroupOrder(t *rapid.T, cli bool) ReduceCase {
	c := ReduceCase{Obs: pbt.NewObs(), Sort: "none"}
	ar := rapid.SampledFrom([]int{1, 2, 2, 2, 3, 3}).Draw(t, "groupValues")
	kinds := make([]string, ar)
	for i := range kinds {
		kinds[i] = rapid.SampledFrom([]string{"weekdays", "months", "codes", "numbers", "words"}).Draw(t, "columnKind")
	}
	if ar >= 2 && rapid.IntRange(0, 3).Draw(t, "namesFirst") != 0 {
		kinds[0] = rapid.SampledFrom([]string{"weekdays", "months"}).Draw(t, "firstKind")
		if kinds[1] == kinds[0] {
			kinds[1] = rapid.SampledFrom([]string{"codes", "numbers", "words"}).Draw(t, "secondKind")
		}
	}
	n := rapid.IntRange(2, 14).Draw(t, "nGroups")
	if n < 6 && rapid.IntRange(0, 3).Draw(t, "grow") != 0 {
		n += 5
	}
	seen := map[string]bool{}
	for i := 0; i < n; i++ {
		p := make([]string, ar)
		for col := range p {
			p[col] = genColumnValue(t, kinds[col], ar >= 2 && col == 0) // the first of several columns is shared by several groups
		}
		k := strings.Join(p, "\x00")
		if seen[k] {
			continue
		}
		seen[k] = true
		c.Parts = append(c.Parts, pbt.SS(p))
		m := rapid.SampledFrom([]int{1, 1, 1, 2}).Draw(t, "nLines")
		var incs []int64
		for j := 0; j < m; j++ {
			incs = append(incs, rapid.Int64Range(-1, 3).Draw(t, "inc"))
		}
		c.Incs = append(c.Incs, incs)
	}
	pc := PermCase{Incs: c.Incs}
	ns := len(pc.samples())
	if cli {
		c.Perms = genPerms(t, ns, 2, 3)
		c.Files = rapid.IntRange(1, 3).Draw(t, "files")
	} else {
		c.Perms = genPerms(t, ns, 2, 4)
		c.Cut = rapid.IntRange(0, ns-1).Draw(t, "cut")
	}
	return c
}

func genReduce(t *rapid.T, cli bool) ReduceCase {
	if rapid.IntRange(0, 3).Draw(t, "groupOrder") == 0 {
		return genGroupOrder(t, cli)
	}
	c := ReduceCase{Obs: pbt.NewObs()}
	ar := rapid.IntRange(1, 2).Draw(t, "groupValues")
	n := rapid.IntRange(2, 12).Draw(t, "nGroups")
	if n < 5 && rapid.IntRange(0, 3).Draw(t, "grow") != 0 {
		n += 4
	}
	num0 := rapid.Bool().Draw(t, "numbers0")
	num1 := rapid.Bool().Draw(t, "numbers1")
	seen := map[string]bool{}
	for i := 0; i < n; i++ {
		var p []string
		if ar == 1 {
			p = []string{genPlain(t, num0, false)}
		} else {
			p = []string{genPlain(t, num0, true), genPlain(t, num1, false)} // the first value is shared by several groups
		}
		k := strings.Join(p, "\x00")
		if seen[k] {
			continue
		}
		seen[k] = true
		c.Parts = append(c.Parts, pbt.SS(p))
		m := rapid.SampledFrom([]int{1, 1, 1, 2, 3}).Draw(t, "nLines")
		var incs []int64
		for j := 0; j < m; j++ {
			incs = append(incs, rapid.Int64Range(-1, 3).Draw(t, "inc"))
		}
		c.Incs = append(c.Incs, incs)
	}
	kinds := []string{"n", "n", "s", "s", "const", "lohi", "part0"}
	if ar == 2 {
		kinds = []string{"n", "s", "const", "lohi", "part0", "part0", "part1"}
	}
	c.Sort = rapid.SampledFrom(kinds).Draw(t, "sortKind")
	if c.Sort == "const" {
		c.Const = rapid.SampledFrom([]string{"x", "7", "same", "0"}).Draw(t, "const")
	}
	pc := PermCase{Incs: c.Incs}
	ns := len(pc.samples())
	if cli {
		c.Perms = genPerms(t, ns, 2, 3)
		c.Files = rapid.IntRange(1, 3).Draw(t, "files")
	} else {
		c.Perms = genPerms(t, ns, 2, 4)
		c.Cut = rapid.IntRange(0, ns-1).Draw(t, "cut")
	}
	return c
}

var reduceSpec = pbt.Spec[ReduceCase]{
	Property: prop, Name: "reduce",
	Rule:   "AccumulatingGroup as `rare reduce` sets it up: 2..12 groups of 1 or 2 group values (plain words / plain numbers; with 2 values the first is one of 3, shared by several groups), data columns s (sum of -1..3 per line) and n (lines), 1..3 lines per group in 2..4 arrival orders, SetSort(expr) with expr from {n} | {s} | a constant | {if {lt {s} 2} lo hi} | {0} | {1} so that groups TIE on the sort value; read with sorting.ByContextual() and with sorting.Reverse(sorting.ByContextual()) exactly as cmd/reduce.go builds them (one sorter per run: during the run, three times at the end; and one accumulator alternately in both directions and with sorting.ByName as the csv export does). One sequence per direction for every arrival order and every read; groups with different sort values are in opposite order in the two directions (exact mirror without ties) and follow magnitude / dictionary order forward; which tied group comes first is not asserted, only that it never changes. One case in four has NO sort expression (sort kind none: reduce's group order): 1..3 group columns, each uniform but of different kinds (weekday names | month names | status-code-like numbers | plain numbers | plain words; with several columns the first is one of 4 values shared by several groups), up to 14 groups; one sequence per direction for every arrival order and read, the reversed sequence the exact mirror, with one column the calendar / magnitude / dictionary order of the contextual mode; how keys of several columns are ordered among each other is not asserted (label group-order:names-column-next-to-other-column). Non-trivial: >=4 groups, >=2 tied on the sort value, >=2 arrival orders that differ; for the group order: >=4 groups, a calendar-name column next to another kind, two groups sharing the first column (or one column), >=2 arrival orders that differ",
	Budget: pbt.Budget{Quick: 3000, Thorough: 160000},
	Gen:    func(t *rapid.T) ReduceCase { return genReduce(t, false) },
	Check:  checkReduce, Classify: classifyReduce,
}

func TestReduce(t *testing.T) { pbt.Run(t, reduceSpec) }

// ------------------------------------------------------------------- cli --

// parseReduce reads the group columns of every row between the header and the
// summary line of `rare reduce --snapshot`.
func parseReduce(out string, ar int) ([]string, error) {
	lines := strings.Split(out, "\n")
	var rows []string
	for _, line := range lines[1:] {
		if strings.HasPrefix(line, "Matched: ") {
			return rows, nil
		}
		f := strings.Fields(line)
		if len(f) == 0 {
			continue
		}
		if len(f) < ar {
			return nil, fmt.Errorf("cannot parse row %q", line)
		}
		rows = append(rows, strings.Join(f[:ar], "\x00"))
	}
	return nil, fmt.Errorf("no summary line in output:\n%s", pbt.Trunc(out, 600))
}

func parseReduceCSV(out string, ar int) ([]string, error) {
	lines := strings.Split(strings.TrimRight(out, "\n"), "\n")
	if len(lines) < 1 {
		return nil, fmt.Errorf("empty csv")
	}
	var rows []string
	for _, line := range lines[1:] {
		f := strings.Split(line, ",")
		if len(f) < ar {
			return nil, fmt.Errorf("cannot parse csv row %q", line)
		}
		rows = append(rows, strings.Join(f[:ar], "\x00"))
	}
	return rows, nil
}

func checkReduceCli(c ReduceCase) error {
	if os.Getenv("VERIF_RARE_BIN") == "" {
		return fmt.Errorf("harness: VERIF_RARE_BIN is not set")
	}
	if err := c.validate(); err != nil {
		return err
	}
	for _, p := range c.Parts {
		for _, x := range p {
			if !cliSafe(string(x), true) || strings.Contains(string(x), ",") {
				return fmt.Errorf("bad case: group value %q cannot be carried through the command line layer", string(x))
			}
		}
	}
	exprArg, vals, err := c.sortExpr()
	if err != nil {
		return err
	}
	expr := exprArg
	if expr == "" {
		expr = "<none: group order>" // in messages
	}
	sv := c.valuesByGroup(vals)
	pc := PermCase{Incs: c.Incs}
	smp := pc.samples()
	ar := c.arity()
	files := c.Files
	if files < 1 {
		files = 1
	}
	dir := os.Getenv("VERIF_SCRATCH")
	if dir == "" {
		dir = os.TempDir()
	}
	cliSeq++
	dir = filepath.Join(dir, fmt.Sprintf("c13red-%d-%d", os.Getpid(), cliSeq))
	if err := os.MkdirAll(dir, 0o755); err != nil {
		return fmt.Errorf("harness: %v", err)
	}
	defer os.RemoveAll(dir)

	base := []string{"--nocolor", "--noformat", "reduce"}
	opts := []string{"--rows", fmt.Sprint(len(c.Parts) + 3)}
	if exprArg != "" {
		opts = append(opts, "--sort", exprArg)
	}
	opts = append(opts, "-m", "^"+strings.Repeat(`(\S+) `, ar)+`(-?\d+)$`)
	for i := 0; i < ar; i++ {
		opts = append(opts, "-g", fmt.Sprintf("g%d={%d}", i, i+1))
	}
	opts = append(opts, "-a", fmt.Sprintf("s={sumi {.} {%d}}", ar+1), "-a", "n={sumi {.} 1}")
	var refF, refR, refC []string
	for pi, perm := range c.Perms {
		bufs := make([]bytes.Buffer, files)
		for i, x := range perm {
			s := smp[x]
			f := i * files / len(perm)
			fmt.Fprintf(&bufs[f], "%s %d\n", strings.Join(pbt.Strs(c.Parts[s.key]), " "), s.inc)
		}
		var paths []string
		for i := range bufs {
			p := filepath.Join(dir, fmt.Sprintf("p%d-f%d.log", pi, i))
			if err := os.WriteFile(p, bufs[i].Bytes(), 0o644); err != nil {
				return fmt.Errorf("harness: %v", err)
			}
			paths = append(paths, p)
		}
		run := func(ref *[]string, what string, extra ...string) error {
			args := append(append(append(append([]string{}, base...), extra...), opts...), paths...)
			out, err := runRare(args)
			if err != nil {
				return err
			}
			var got []string
			if what == "csv" {
				got, err = parseReduceCSV(out, ar)
			} else {
				got, err = parseReduce(out, ar)
			}
			if err != nil {
				return err
			}
			if *ref == nil {
				*ref = got
				return nil
			}
			if !sameStrings(got, *ref) {
				return fmt.Errorf("rare reduce %s --sort %s (%s), arrival order #%d over %d file(s): the rows come in another order than in the first run over the same lines\n got: %s\nwant: %s\noutput:\n%s", strings.Join(extra, " "), expr, what, pi, files, showWithValues(got, sv), showWithValues(*ref, sv), pbt.Trunc(out, 1200))
			}
			return nil
		}
		reps := 1
		if pi == 0 {
			reps = 2 // the very same files once more
		}
		for rep := 0; rep < reps; rep++ {
			if err := run(&refF, "forward", "--snapshot"); err != nil {
				return err
			}
			if err := run(&refR, "reversed", "--snapshot", "--sort-reverse"); err != nil {
				return err
			}
		}
		if pi == 0 || pi == len(c.Perms)-1 {
			if err := run(&refC, "csv", "-o", "-"); err != nil {
				return err
			}
		}
	}
	if len(refC) != len(c.Parts) {
		return fmt.Errorf("rare reduce -o - --sort %s: %d csv rows for %d groups: %s", expr, len(refC), len(c.Parts), showGroups(refC))
	}
	return c.checkDirections("rare reduce", expr, sv, refF, refR)
}

var reduceCliSpec = pbt.Spec[ReduceCase]{
	Property: prop, Name: "reduce-cli",
	Rule:   "`rare reduce --snapshot -g .. [-g ..] -a s={sumi {.} {k}} -a n={sumi {.} 1} --sort <expr> [--sort-reverse]` and `-o -` (csv) on 1..3 files holding the lines of the `reduce` sub-property's data (sort values tie) in 2..3 arrival orders, the first order run twice: one row sequence per direction (and one for the csv) in every run; groups with different sort values in opposite order with and without --sort-reverse (exact mirror without ties), plain numbers in magnitude order, plain words in dictionary order; one case in four without --sort on 1..3 -g columns of different kinds (calendar names next to numbers / words) as in `reduce`. Non-trivial as in `reduce`",
	Budget: pbt.Budget{Quick: 60, Thorough: 2400},
	Gen:    func(t *rapid.T) ReduceCase { return genReduce(t, true) },
	Check:  checkReduceCli, Classify: classifyReduce,
	Watchdog: 120 * time.Second, NoWatchdogViolation: true,
}

func TestReduceCli(t *testing.T) { pbt.Run(t, reduceCliSpec) }
