package c13

// Key generators and fixed pools. Every random choice is drawn from rapid.

import (
	"fmt"
	"os"
	"sort"
	"strconv"
	"strings"
	"time"

	"pgregory.net/rapid"
	"verifharness/pbt"
)

const prop = "C13"

// known findings of this property (class excluded by construction when the
// entry is listed with status "known" in known_findings.json):
//
//	contextual-mixture  contextual order (also as fallback of date, and the
//	                    group order of reduce) of a key set that is neither all
//	                    weekday names, nor all month names, nor free of such names
//	date-mixture        date order of a key set that is not uniform: anything but
//	                    (all keys in one fixed-width date layout) or (no key a
//	                    date parser could read: calendar names / plain words)
//
// VERIF_C13_ASSUME_KNOWN=key,key is a development aid (soak runs before the
// lead has listed the entries); it is not set by the launcher.
const (
	kfContextual = "contextual-mixture"
	kfDate       = "date-mixture"
)

func known(key string) bool {
	if pbt.IsKnown(prop, key) {
		return true
	}
	for _, k := range strings.Split(os.Getenv("VERIF_C13_ASSUME_KNOWN"), ",") {
		if k == key {
			return true
		}
	}
	return false
}

// ---------------------------------------------------------------- pools --

var weekdayNames = []string{"sunday", "sun", "monday", "mon", "tuesday", "tue", "tues", "wednesday", "wed",
	"thursday", "thu", "thur", "thurs", "friday", "fri", "saturday", "sat"}

var monthNames = []string{"january", "jan", "february", "feb", "march", "mar", "april", "apr", "may", "june", "jun",
	"july", "jul", "august", "aug", "september", "sep", "sept", "october", "oct", "november", "nov", "december", "dec"}

// letters-only words that are no calendar names and nothing a number or date
// parser reads.
var plainWords = []string{"abc", "foo", "zed", "x", "hello", "ab", "a", "b", "zz", "qux", "Abc", "FOO", "w", "k", "lorem", "ipsum"}

// spellings of numbers, several per value
var numberPool = []string{
	"0", "-0", "0.0", "00", "+0", "0e0",
	"1", "1.0", "+1", "1e0", "01", "1.", "1.00", "10e-1",
	"-1", "-1.0", "-01",
	"2", "2.0", "9", "10", "10.0", "1e1", "11", "100", "1e2",
	"0.5", ".5", "5e-1", "1.5", "-1.5", "-10", "-2", "-9",
	"1000", "1e3", "0.001", "1e-3",
	"9007199254740992", "9007199254740993", "1e18", "1000000000000000000", "1e300", "-1e300", "1e-300",
	"3.14", "2.718", "99", "099", "9.9e1",
}

// things a float parser may or may not read; never claimed to be numbers or text
var oddNumberish = []string{"nan", "NaN", "inf", "+Inf", "-inf", "Infinity", "0x10", "0x1p-2", "1_0", "1e999", "-1e999",
	" 1", "1 ", "1x", "x1", "1,5", "1e", "e1", "--1", "+", "-", ".", "1.2.3", "٣"}

var oddText = []string{"", " ", "a b", "A", "B", "Z", "a", "aa", "ab", "aB", "b", "é", "\xff", "\xff\xfe", "a\x00", "\x00", "z", "_", "~", "-x", "10x", "x10", "key", "Key", "KEY"}

// fixed-width date layouts: every rendering has the same shape, so whichever
// key a format is inferred from, it reads all the others.
var dateLayouts = []string{
	"2006-01-02",
	"2006-01-02 15:04:05",
	"2006-01-02T15:04:05",
	"2006-01-02T15:04:05Z",
	"2006-01-02T15:04:05-07:00",
	"2006/01/02",
	"01/02/2006",
	"01/02/2006 15:04:05",
	"02 Jan 2006",
	"02/Jan/2006:15:04:05 -0700",
	"2006-01-02 15:04:05.000",
	"2006-01-02 15:04",
	"2006-01",
	"20060102",
}

// layouts whose renderings differ in shape from key to key (not uniform)
var raggedLayouts = []string{"1/2/2006", "Jan 2, 2006", "January 2, 2006", "2 January 2006", "Jan _2 15:04:05", "2006-01-02T15:04:05Z07:00", "Mon Jan _2 15:04:05 2006"}

var zoneOffsets = []int{0, 0, 2 * 3600, -7 * 3600, 5*3600 + 1800, 1 * 3600}

func layoutHasZone(l string) bool { return strings.Contains(l, "-07") }

// ----------------------------------------------------------- generators --

func caseVariant(t *rapid.T, s string) string {
	switch rapid.IntRange(0, 5).Draw(t, "casing") {
	case 0, 1:
		return s
	case 2:
		return strings.ToUpper(s[:1]) + s[1:]
	case 3:
		return strings.ToUpper(s)
	case 4:
		b := []byte(s)
		for i := range b {
			if i%2 == 1 {
				b[i] -= 32
			}
		}
		return string(b)
	default:
		b := []byte(s)
		i := rapid.IntRange(0, len(b)-1).Draw(t, "upAt")
		b[i] -= 32
		return string(b)
	}
}

func genWeekday(t *rapid.T) string {
	return caseVariant(t, rapid.SampledFrom(weekdayNames).Draw(t, "weekday"))
}
func genMonth(t *rapid.T) string {
	return caseVariant(t, rapid.SampledFrom(monthNames).Draw(t, "month"))
}

func genNumber(t *rapid.T) string {
	switch rapid.IntRange(0, 10).Draw(t, "numForm") {
	case 10:
		return genBigNumber(t, -1)
	case 0, 1, 2:
		return rapid.SampledFrom(numberPool).Draw(t, "num")
	case 3, 4:
		return strconv.Itoa(rapid.IntRange(-20, 120).Draw(t, "int"))
	case 5:
		// one value, several spellings
		v := rapid.IntRange(-12, 12).Draw(t, "v")
		switch rapid.IntRange(0, 6).Draw(t, "spell") {
		case 0:
			return fmt.Sprintf("%d.0", v)
		case 1:
			return fmt.Sprintf("%de0", v)
		case 2:
			if v >= 0 {
				return fmt.Sprintf("+%d", v)
			}
			return fmt.Sprintf("%d.00", v)
		case 3:
			if v >= 0 {
				return fmt.Sprintf("0%d", v)
			}
			return fmt.Sprintf("-0%d", -v)
		case 4:
			return fmt.Sprintf("%d.", v)
		case 5:
			return fmt.Sprintf("%d0e-1", v)
		}
		return strconv.Itoa(v)
	case 6:
		q := rapid.IntRange(-40, 40).Draw(t, "quarter")
		return strconv.FormatFloat(float64(q)/4, 'f', -1, 64)
	case 7:
		m := rapid.IntRange(1, 99).Draw(t, "mant")
		e := rapid.SampledFrom([]int{-300, -20, -3, -1, 0, 1, 2, 3, 15, 18, 20, 299}).Draw(t, "exp")
		s := ""
		if rapid.Bool().Draw(t, "neg") {
			s = "-"
		}
		return fmt.Sprintf("%s%de%d", s, m, e)
	case 8:
		return strconv.FormatInt(rapid.Int64Range(-1<<62, 1<<62).Draw(t, "big"), 10)
	default:
		return rapid.SampledFrom([]string{"9007199254740992", "9007199254740993", "9007199254740994", "18446744073709551616", "0.1", "0.10", "0.30000000000000004", "0.3"}).Draw(t, "edge")
	}
}

// Integers beyond 2^53, where neighbouring integers round to ONE float64: a
// comparator that decides some pairs exactly (as integers) and others after
// rounding is free to close a cycle. One family = integers that are a few units
// apart; every member comes plain and spelled with a fraction / an exponent.
var bigIntFamilies = [][]string{
	{"9007199254740992", "9007199254740993", "9007199254740994", "9007199254740995", "9007199254740991"},
	{"9223372036854775807", "9223372036854775806", "9223372036854775805", "9223372036854775808"},
	{"1000000000000000000", "1000000000000000001", "1000000000000000002", "999999999999999999"},
	{"4611686018427387904", "4611686018427387905", "4611686018427387903"},
	{"18014398509481984", "18014398509481985", "18014398509481986", "18014398509481987"},
	{"123456789012345678", "123456789012345679", "123456789012345680"},
}

const bigForms = 7

// spellBig: one spelling of the integer base (decimal digits), negated or not.
func spellBig(base string, neg bool, form int) string {
	sign := ""
	if neg {
		sign = "-"
	}
	switch form {
	case 1:
		return sign + base + ".0"
	case 2:
		return sign + base + "e0"
	case 3:
		if !neg {
			return "+" + base
		}
		return sign + base + ".00"
	case 4:
		// mantissa and exponent: 1e+18, 9.007199254740993e+15
		m := strings.TrimRight(base[1:], "0")
		if m != "" {
			m = "." + m
		}
		return fmt.Sprintf("%s%s%se+%d", sign, base[:1], m, len(base)-1)
	case 5:
		return sign + "0" + base
	case 6:
		return sign + base + "0e-1"
	}
	return sign + base
}

func genBigNumber(t *rapid.T, family int) string {
	if family < 0 {
		family = rapid.IntRange(0, len(bigIntFamilies)-1).Draw(t, "bigFamily")
	}
	base := rapid.SampledFrom(bigIntFamilies[family]).Draw(t, "bigBase")
	neg := rapid.Bool().Draw(t, "bigNeg")
	form := rapid.SampledFrom([]int{0, 0, 0, 1, 1, 2, 3, 4, 5, 6}).Draw(t, "bigForm")
	return spellBig(base, neg, form)
}

// bigNumberPool: the enumerated pool of the `axioms` sub-property.
func bigNumberPool() []string {
	var out []string
	seen := map[string]bool{}
	add := func(k string) {
		if !seen[k] {
			seen[k] = true
			out = append(out, k)
		}
	}
	for _, neg := range []bool{false, true} {
		for _, b := range bigIntFamilies[0][:3] {
			for _, f := range []int{0, 1, 2} {
				add(spellBig(b, neg, f))
			}
		}
		add(spellBig(bigIntFamilies[0][0], neg, 4))
		for _, b := range bigIntFamilies[1][:2] {
			add(spellBig(b, neg, 0))
			add(spellBig(b, neg, 1))
		}
		for _, b := range bigIntFamilies[2][:2] {
			add(spellBig(b, neg, 0))
			add(spellBig(b, neg, 4))
		}
		add(spellBig(bigIntFamilies[2][0], neg, 1))
	}
	return append(out, "0", "1e18x")
}

// beyond2p53: does the key set hold two different spellings of integers beyond
// 2^53 that round to the same float64 (label only)?
func beyond2p53(keys []string) bool {
	seen := map[float64]bool{}
	for _, k := range keys {
		if v, ok := numberOf(k); ok && (v >= 1<<53 || v <= -(1<<53)) {
			if seen[v] {
				return true
			}
			seen[v] = true
		}
	}
	return false
}

// alphabet from which no calendar name can be spelled
var textAlphabet = []byte{'a', 'b', 'x', 'z', 'A', 'Z', '0', '1', '9', ' ', '-', '.', '_', 0x00, 0xff, 0xc3, 0xa9}

func genText(t *rapid.T) string {
	if rapid.IntRange(0, 2).Draw(t, "textPool") == 0 {
		return rapid.SampledFrom(oddText).Draw(t, "text")
	}
	n := rapid.IntRange(0, 5).Draw(t, "textLen")
	b := make([]byte, n)
	for i := range b {
		b[i] = textAlphabet[rapid.IntRange(0, len(textAlphabet)-1).Draw(t, "ch")]
	}
	return string(b)
}

func genWord(t *rapid.T) string {
	if rapid.Bool().Draw(t, "wordPool") {
		return rapid.SampledFrom(plainWords).Draw(t, "word")
	}
	return rapid.StringMatching(`[abxz]{1,4}`).Draw(t, "word")
}

// genInstants draws n instants clustered around a few anchors so that equal
// days / seconds and near ties are common.
func genInstants(t *rapid.T, n int) []time.Time {
	anchors := make([]int64, rapid.IntRange(1, 3).Draw(t, "anchors"))
	for i := range anchors {
		anchors[i] = rapid.Int64Range(0, 2_100_000_000).Draw(t, "anchor")
	}
	deltas := []int64{0, 0, 1, -1, 59, 60, 3600, -3600, 7200, 86400, -86400, 31 * 86400, 365 * 86400, -366 * 86400}
	out := make([]time.Time, n)
	for i := range out {
		s := anchors[rapid.IntRange(0, len(anchors)-1).Draw(t, "anchorOf")]
		if rapid.IntRange(0, 4).Draw(t, "freeDelta") == 0 {
			s += rapid.Int64Range(-40_000_000, 40_000_000).Draw(t, "delta")
		} else {
			s += deltas[rapid.IntRange(0, len(deltas)-1).Draw(t, "deltaOf")]
		}
		if s < 0 {
			s = -s
		}
		ms := rapid.SampledFrom([]int64{0, 0, 1, 500, 999}).Draw(t, "ms")
		out[i] = time.Unix(s, ms*1_000_000).UTC()
	}
	return out
}

func renderDate(t *rapid.T, tm time.Time, layout string) string {
	if layoutHasZone(layout) {
		off := zoneOffsets[rapid.IntRange(0, len(zoneOffsets)-1).Draw(t, "zone")]
		return tm.In(time.FixedZone("", off)).Format(layout)
	}
	return tm.Format(layout)
}

func genDates(t *rapid.T, n int, layout string) []string {
	out := make([]string, 0, n)
	for _, tm := range genInstants(t, n) {
		out = append(out, renderDate(t, tm, layout))
		if layoutHasZone(layout) && len(out) < n && rapid.IntRange(0, 2).Draw(t, "respell") == 0 {
			out = append(out, renderDate(t, tm, layout)) // the same instant, (mostly) another zone
		}
		if len(out) >= n {
			break
		}
	}
	return out
}

// kinds of key sets
const (
	kMixed      = "mixed"      // anything with anything
	kNumbers    = "numbers"    // number spellings only
	kBigNumbers = "big-numbers" // integers beyond 2^53 a few units apart, plain and with fraction / exponent (classified as numbers)
	kWeekdays   = "weekdays"   // weekday names, aliases, case variants
	kMonths     = "months"     // month names, aliases, case variants
	kNonMembers = "nonmembers" // no calendar name: numbers, text, dates, words
	kWords      = "words"      // plain letter words
	kDates      = "dates"      // one fixed-width layout
	kCtxMixture = "ctx-mixture"
	kDateMix    = "date-mixture"
)

// genKeySet draws a key set of the given kind. Returns distinct keys (order
// as drawn) and the date layout when kind == kDates.
func genKeySet(t *rapid.T, kind string, maxN int) ([]string, string) {
	n := rapid.IntRange(2, maxN).Draw(t, "nKeys")
	if n < 6 && maxN >= 8 && rapid.IntRange(0, 3).Draw(t, "grow") != 0 {
		n += 4 // small sets stay, but most sets have >= 5 keys after de-duplication
	}
	var raw []string
	layout := ""
	one := func(class int) string {
		switch class {
		case 0:
			return genNumber(t)
		case 1:
			return genText(t)
		case 2:
			return genWord(t)
		case 3:
			return genWeekday(t)
		case 4:
			return genMonth(t)
		case 5:
			return rapid.SampledFrom(oddNumberish).Draw(t, "oddnum")
		default:
			l := rapid.SampledFrom(dateLayouts).Draw(t, "anyLayout")
			return genDates(t, 1, l)[0]
		}
	}
	switch kind {
	case kNumbers:
		for i := 0; i < n; i++ {
			raw = append(raw, genNumber(t))
		}
	case kBigNumbers:
		fam := rapid.IntRange(0, len(bigIntFamilies)-1).Draw(t, "family")
		for i := 0; i < n; i++ {
			if rapid.IntRange(0, 5).Draw(t, "otherNumber") == 0 {
				raw = append(raw, genNumber(t))
				continue
			}
			raw = append(raw, genBigNumber(t, fam))
		}
	case kWeekdays:
		for i := 0; i < n; i++ {
			raw = append(raw, genWeekday(t))
		}
	case kMonths:
		for i := 0; i < n; i++ {
			raw = append(raw, genMonth(t))
		}
	case kWords:
		for i := 0; i < n; i++ {
			raw = append(raw, genWord(t))
		}
	case kDates:
		layout = rapid.SampledFrom(dateLayouts).Draw(t, "layout")
		raw = genDates(t, n, layout)
	case kNonMembers:
		for i := 0; i < n; i++ {
			raw = append(raw, one(rapid.SampledFrom([]int{0, 0, 0, 1, 1, 2, 5, 6}).Draw(t, "class")))
		}
	case kMixed:
		for i := 0; i < n; i++ {
			raw = append(raw, one(rapid.SampledFrom([]int{0, 0, 0, 1, 1, 2, 3, 4, 5, 6}).Draw(t, "class")))
		}
	case kCtxMixture:
		// calendar names of one set + something else (other set, word, number)
		for i := 0; i < n; i++ {
			raw = append(raw, one(rapid.SampledFrom([]int{3, 3, 3, 4, 2, 0}).Draw(t, "class")))
		}
	case kDateMix:
		l1 := rapid.SampledFrom(append(append([]string{}, dateLayouts...), raggedLayouts...)).Draw(t, "layout1")
		l2 := rapid.SampledFrom(append(append([]string{}, dateLayouts...), raggedLayouts...)).Draw(t, "layout2")
		for i := 0; i < n; i++ {
			switch rapid.IntRange(0, 5).Draw(t, "mixClass") {
			case 0, 1, 2:
				raw = append(raw, genDates(t, 1, l1)[0])
			case 3:
				raw = append(raw, genDates(t, 1, l2)[0])
			case 4:
				raw = append(raw, genNumber(t))
			default:
				raw = append(raw, one(rapid.SampledFrom([]int{1, 2, 3}).Draw(t, "class")))
			}
		}
	default:
		panic("unknown kind " + kind)
	}
	seen := map[string]bool{}
	var keys []string
	for _, k := range raw {
		if !seen[k] {
			seen[k] = true
			keys = append(keys, k)
		}
	}
	return keys, layout
}

var modes = []string{"text", "numeric", "contextual", "date", "value"}
var modifiers = []string{"", "", ":asc", ":desc", ":reverse"}

// kindsFor lists the key-set kinds searched under a mode; the mixture classes
// are searched unless they are listed as known findings.
func kindsFor(mode string) []string {
	switch mode {
	case "contextual":
		ks := []string{kWeekdays, kWeekdays, kMonths, kMonths, kNonMembers, kNonMembers, kNumbers, kBigNumbers, kWords}
		if known(kfContextual) {
			pbt.Exclude("contextual sort of calendar names mixed with other keys (known finding " + kfContextual + ")")
		} else {
			ks = append(ks, kCtxMixture, kCtxMixture, kMixed)
		}
		return ks
	case "date":
		ks := []string{kDates, kDates, kDates, kDates, kWeekdays, kMonths, kWords}
		if known(kfContextual) {
			pbt.Exclude("date sort falling back to contextual on calendar names mixed with other keys (known finding " + kfContextual + ")")
		} else {
			ks = append(ks, kCtxMixture)
		}
		if known(kfDate) {
			pbt.Exclude("date sort of non-uniform key sets: several layouts, dates with non-dates, numbers (known finding " + kfDate + ")")
		} else {
			ks = append(ks, kDateMix, kDateMix, kNumbers)
		}
		return ks
	}
	return []string{kMixed, kMixed, kMixed, kNumbers, kNumbers, kBigNumbers, kNonMembers, kWeekdays, kMonths, kDates, kWords}
}

// classifyKeys recomputes the kind of a key set from the keys alone (so that
// a replayed or hand-written case is judged by what it holds, not by a label).
func classifyKeys(keys []string, layout string) string {
	ks := summarise(keys, layout)
	switch {
	case ks.uniform:
		return kDates
	case ks.allWeekdays:
		return kWeekdays
	case ks.allMonths:
		return kMonths
	case ks.noNames:
		w, nn := true, true
		for _, k := range keys {
			if !isWord(asciiLower(k)) || !allLetters(k) {
				w = false
			}
			if _, ok := numberOf(k); !ok {
				nn = false
			}
		}
		if w {
			return kWords
		}
		if nn {
			return kNumbers
		}
		return kNonMembers
	}
	return kCtxMixture
}

func allLetters(k string) bool {
	if k == "" {
		return false
	}
	for i := 0; i < len(k); i++ {
		c := k[i]
		if !(c >= 'a' && c <= 'z' || c >= 'A' && c <= 'Z') {
			return false
		}
	}
	return true
}

// inKnownClass: does (mode, keys) fall in a class listed as a known finding?
// Used by oracles that receive hand-written / replayed cases.
func inKnownClass(mode string, keys []string, layout string) (string, bool) {
	if len(keys) < 2 {
		return "", false
	}
	kind := classifyKeys(keys, layout)
	switch mode {
	case "contextual":
		if kind == kCtxMixture {
			return kfContextual, true
		}
	case "date":
		switch kind {
		case kDates, kWeekdays, kMonths, kWords:
			return "", false
		case kCtxMixture:
			// names with words only -> the contextual class; anything else -> date class
			for _, k := range keys {
				if !isName(k) && !allLetters(k) {
					return kfDate, true
				}
			}
			return kfContextual, true
		default:
			return kfDate, true
		}
	}
	return "", false
}

// tie / near-tie classes present in the data (labels + non-triviality)
func tieClasses(keys []string, totals []int64, layout string) []string {
	var out []string
	add := func(c bool, s string) {
		if c {
			out = append(out, s)
		}
	}
	{
		seen := map[int64]bool{}
		dup := false
		for _, v := range totals {
			if seen[v] {
				dup = true
			}
			seen[v] = true
		}
		add(dup, "tie:equal-totals")
	}
	{
		seen := map[float64]bool{}
		dup := false
		for _, k := range keys {
			if v, ok := numberOf(k); ok {
				if v == 0 {
					v = 0 // -0 == 0
				}
				if seen[v] {
					dup = true
				}
				seen[v] = true
			}
		}
		add(dup, "tie:equal-magnitudes")
	}
	{
		seenW, seenM := map[int]bool{}, map[int]bool{}
		dup := false
		for _, k := range keys {
			if p, ok := weekdayOf(k); ok {
				if seenW[p] {
					dup = true
				}
				seenW[p] = true
			}
			if p, ok := monthOf(k); ok {
				if seenM[p] {
					dup = true
				}
				seenM[p] = true
			}
		}
		add(dup, "tie:alias-names")
	}
	if layout != "" {
		seen := map[int64]bool{}
		dup := false
		for _, k := range keys {
			if tm, err := time.Parse(layout, k); err == nil {
				if seen[tm.UnixNano()] {
					dup = true
				}
				seen[tm.UnixNano()] = true
			}
		}
		add(dup, "tie:equal-instants")
	}
	{
		s := append([]string(nil), keys...)
		for i := range s {
			s[i] = asciiLower(s[i])
		}
		sort.Strings(s)
		near := false
		for i := 1; i < len(s); i++ {
			if s[i-1] != "" && strings.HasPrefix(s[i], s[i-1]) {
				near = true
			}
		}
		add(near, "tie:prefix-or-case")
	}
	return out
}
