package c14

import (
	"fmt"
	"math"
	"regexp"
	"sort"
	"strconv"
	"strings"
	"testing"
	"unicode/utf8"

	"pgregory.net/rapid"
	"rare/pkg/aggregation"
	"rare/pkg/aggregation/sorting"
	"rare/pkg/multiterm"
	"rare/pkg/multiterm/termrenderers"
	"verifharness/pbt"
)

// ---------- cells of a heatmap / sparkline -----------------------------------------

// The glyph alphabets, coldest/lowest first (vocabulary of the display, not
// a formula): digits for a heatmap without colour, 16 steps of the xterm
// 256-colour cube from black-blue over magenta to red with colour; bar
// heights for a sparkline.
var (
	heatDigits    = []string{"-", "1", "2", "3", "4", "5", "6", "7", "8", "9"}
	heatColours   = []string{"16", "17", "18", "19", "20", "21", "57", "93", "129", "165", "201", "200", "199", "198", "197", "196"}
	sparkUnicode  = []string{"_", "▁", "▂", "▃", "▄", "▅", "▆", "▇", "█"}
	sparkASCII    = []string{"_", ".", "-", "^"}
	heatColCellRe = regexp.MustCompile("^\x1b\\[38;5;([0-9]+)m(.)\x1b\\[0m")
)

func indexOf(l []string, s string) int {
	for i, x := range l {
		if x == s {
			return i
		}
	}
	return -1
}

// heatCells reads the raw cell run of a heatmap row into glyph levels.
func heatCells(raw string, c Cfg) (levels []int, n int, err error) {
	if c.Color {
		glyph := "#"
		if c.Unicode {
			glyph = "█"
		}
		for raw != "" {
			m := heatColCellRe.FindStringSubmatch(raw)
			if m == nil {
				return nil, 0, fmt.Errorf("cell run %q is not a sequence of coloured cells", pbt.Trunc(raw, 80))
			}
			lv := indexOf(heatColours, m[1])
			if lv < 0 || m[2] != glyph {
				return nil, 0, fmt.Errorf("cell %q: want glyph %q in one of the 16 heat colours", m[0], glyph)
			}
			levels = append(levels, lv)
			raw = raw[len(m[0]):]
		}
		return levels, len(heatColours), nil
	}
	for _, r := range raw {
		lv := indexOf(heatDigits, string(r))
		if lv < 0 {
			return nil, 0, fmt.Errorf("cell %q is not one of %v", r, heatDigits)
		}
		levels = append(levels, lv)
	}
	return levels, len(heatDigits), nil
}

func sparkCells(s string, c Cfg) (levels []int, n int, err error) {
	alpha := sparkASCII
	if c.Unicode {
		alpha = sparkUnicode
	}
	for _, r := range s {
		lv := indexOf(alpha, string(r))
		if lv < 0 {
			return nil, 0, fmt.Errorf("cell %q is not one of %v", r, alpha)
		}
		levels = append(levels, lv)
	}
	return levels, len(alpha), nil
}

type cellObs struct {
	val   int64
	level int
	where string
}

// checkLevels: all cells of one render share one (min,max): the level is a
// non-decreasing function of the value; on the linear scale with min < max it
// is proportional (level/(n-1) ~ (val-min)/(max-min), within one level: the
// drawing resolution), min draws the lowest and max the highest glyph.
func checkLevels(cells []cellObs, n int, scale string, min, max int64) error {
	sorted := append([]cellObs(nil), cells...)
	sort.SliceStable(sorted, func(i, j int) bool { return sorted[i].val < sorted[j].val })
	for i, c := range sorted {
		if c.level < 0 || c.level > n-1 {
			return fmt.Errorf("%s: level %d outside the %d glyphs", c.where, c.level, n)
		}
		if i > 0 && sorted[i-1].level > c.level {
			p := sorted[i-1]
			return fmt.Errorf("cells are not monotone in the value: %s value %d -> level %d, %s value %d -> level %d (scale %s, range %d..%d)", p.where, p.val, p.level, c.where, c.val, c.level, scale, min, max)
		}
	}
	if scale != "linear" || min >= max {
		return nil
	}
	// float64 carries 53 bits: a range that is narrow relative to the
	// magnitude of its ends (|values| > 2^53) cannot be resolved; there only
	// bounds and monotonicity are compared.
	if span := float64(max) - float64(min); (math.Abs(float64(min))+math.Abs(float64(max)))/span*0x1p-50 > 1e-3 {
		pbt.Exclude("linear proportionality below float64 resolution (range narrow relative to |values| > 2^53)")
		return nil
	}
	for _, c := range sorted {
		frac := (float64(c.val) - float64(min)) / (float64(max) - float64(min))
		want := -1
		switch {
		case c.val <= min:
			frac, want = 0, 0
		case c.val >= max:
			frac, want = 1, n-1
		}
		if want >= 0 && c.level != want {
			return fmt.Errorf("%s: value %d at the end of the range %d..%d draws level %d of 0..%d, want %d", c.where, c.val, min, max, c.level, n-1, want)
		}
		if d := math.Abs(float64(c.level) - frac*float64(n-1)); d > 1+1e-6 {
			return fmt.Errorf("%s: linear scale, value %d in %d..%d draws level %d of 0..%d, want about %.2f", c.where, c.val, min, max, c.level, n-1, frac*float64(n-1))
		}
	}
	return nil
}

var noteLineRe = regexp.MustCompile(`^\((\d+) more\)$`)
var noteTailRe = regexp.MustCompile(` \((\d+) more\)$`)

// rowNote checks the '(n more)' note for rows: the commands write their
// footers right after the table, so the line before FOOTER-0 is the note iff
// rows are hidden.
func rowNote(vt *multiterm.VirtualTerm, from, hidden int) error {
	f := -1
	for i := 0; i < vt.LineCount(); i++ { // no row line equals a footer text; a stale single footer line may remain above
		if vt.Get(i) == "FOOTER-0" && vt.Get(i+1) == "FOOTER-1" {
			f = i
			break
		}
	}
	if f < 0 {
		return fmt.Errorf("footer line not found (table ends at line %d)", from)
	}
	prev := ""
	if f > 0 {
		prev = strip(vt.Get(f - 1))
	}
	m := noteLineRe.FindStringSubmatch(prev)
	if hidden > 0 {
		if m == nil {
			return fmt.Errorf("%d rows are not shown but line %d before the footer is %q, want \"(%d more)\"", hidden, f-1, pbt.Trunc(prev, 80), hidden)
		}
		if n, _ := strconv.Atoi(m[1]); n != hidden {
			return fmt.Errorf("note says (%d more), %d rows are not shown", n, hidden)
		}
	} else if m != nil {
		return fmt.Errorf("all rows are shown but line %d says %q", f-1, prev)
	}
	return nil
}

// ---------- heatmap (cmd/heatmap.go) ------------------------------------------------

type HeatCase struct {
	Cfg
	Samples            []Sample
	Cuts               []int
	NumRows, NumCols   int
	FixedMin, FixedMax bool
	MinVal, MaxVal     int64
	SortRows, SortCols string
	Profile            string
	Obs                *pbt.Obs `json:"-"`
}

func checkHeat(c HeatCase) error {
	c.setGlobals()
	o := c.Obs
	scaler, err := buildScaler(c.Scale)
	if err != nil {
		return fmt.Errorf("harness: %v", err)
	}
	formatter, err := buildFormatter(c.Format)
	if err != nil {
		return fmt.Errorf("harness: format %q: %v", c.Format, err)
	}
	rowSorter, colSorter := buildSorter(c.SortRows), buildSorter(c.SortCols)

	// heatmapFunction
	counter := aggregation.NewTable(sep)
	vt := multiterm.NewVirtualTerm()
	writer := termrenderers.NewHeatmap(vt, c.NumRows, c.NumCols)
	writer.FixedMin = c.FixedMin
	writer.FixedMax = c.FixedMax
	minVal, maxVal := int64(0), int64(0) // c.Int64 of an unset flag
	if c.FixedMin {
		minVal = c.MinVal
	}
	if c.FixedMax {
		maxVal = c.MaxVal
	}
	if c.FixedMin || c.FixedMax {
		writer.UpdateMinMax(minVal, maxVal)
	}
	writer.Scaler = scaler
	writer.Formatter = formatter

	g := newGrid()
	fed := 0
	cuts := normCuts(c.Cuts, len(c.Samples))
	for ri, cut := range cuts {
		for ; fed < cut; fed++ {
			counter.Sample(c.Samples[fed].str(true))
			g.add(c.Samples[fed])
		}
		writer.WriteTable(counter, rowSorter, colSorter)
		writer.WriteFooter(0, "FOOTER-0")
		writer.WriteFooter(1, "FOOTER-1")

		if err := g.agree(counter); err != nil {
			return err
		}
		if err := checkHeatRender(vt, counter, g, c, minVal, maxVal, o); err != nil {
			return fmt.Errorf("render %d (after %d samples): %v%s", ri+1, cut, err, dump(vt))
		}
		o.Add("renders", 1)
	}
	writer.Close()
	return nil
}

func checkHeatRender(vt *multiterm.VirtualTerm, counter *aggregation.TableAggregator, g *grid, c HeatCase, fixMin, fixMax int64, o *pbt.Obs) error {
	cols := counter.OrderedColumns(buildSorter(c.SortCols))
	shownCols := len(cols)
	if shownCols > c.NumCols {
		shownCols = c.NumCols
	}
	rows := counter.OrderedRows(buildSorter(c.SortRows))
	nrows := len(rows)
	if nrows > c.NumRows {
		nrows = c.NumRows
	}
	o.Label(len(rows) > nrows, "more-rows-than-fit")
	o.Label(len(cols) > shownCols, "more-cols-than-fit")
	o.Label(nrows >= 3, "rows>=3")
	o.Label(shownCols >= 2, "cols>=2")
	for _, cn := range cols[:shownCols] {
		labelKey(o, cn)
	}
	o.Label(len(cols) > 0 && cols[0] == "", "empty-first-column-key")

	// the range of the scale: the data's, unless fixed by --min/--max
	min, max := g.minMax()
	if c.FixedMin {
		min = fixMin
	}
	if c.FixedMax {
		max = fixMax
	}
	o.Label(min >= max, "min>=max")
	o.Label(max <= 0, "max<=0")

	// header line: '(n more)' for columns
	hdr := strip(vt.Get(1))
	m := noteTailRe.FindStringSubmatch(hdr)
	if hidden := len(cols) - shownCols; hidden > 0 {
		if m == nil {
			return fmt.Errorf("%d columns are not shown but the header line %q has no '(n more)' note", hidden, pbt.Trunc(hdr, 120))
		}
		if n, _ := strconv.Atoi(m[1]); n != hidden {
			return fmt.Errorf("header note says (%d more), %d of %d columns are not shown (--cols %d)", n, hidden, len(cols), c.NumCols)
		}
	} else if m != nil {
		return fmt.Errorf("all %d columns are shown but the header line says %q", len(cols), m[0])
	}

	var cells []cellObs
	nlevels := 0
	for i := 0; i < nrows; i++ {
		name := rows[i].Name()
		labelKey(o, name)
		if hasESC(name) {
			o.Label(true, "esc-key(crash-only)")
			pbt.Exclude("heatmap row whose key holds ESC: line not parsed")
			continue
		}
		raw := vt.Get(2 + i)
		where := fmt.Sprintf("line %d (row %q)", 2+i, pbt.Trunc(name, 30))
		pre := name
		if c.Color {
			pre = "\x1b[33m" + name + "\x1b[0m"
		}
		if !strings.HasPrefix(raw, pre) {
			return fmt.Errorf("%s: shows %q, want the row of key %q", where, pbt.Trunc(raw, 120), name)
		}
		rest := raw[len(pre):]
		run := strings.TrimLeft(rest, " ")
		if len(run) == len(rest) {
			return fmt.Errorf("%s: key not separated from the cells in %q", where, pbt.Trunc(raw, 120))
		}
		levels, n, err := heatCells(run, c.Cfg)
		if err != nil {
			return fmt.Errorf("%s: %v", where, err)
		}
		if len(levels) != shownCols {
			return fmt.Errorf("%s: %d cells, want one per displayed column (%d of %d columns, --cols %d)", where, len(levels), shownCols, len(cols), c.NumCols)
		}
		nlevels = n
		for j, lv := range levels {
			v := g.value(name, cols[j])
			labelVal(o, v)
			o.Label(v == max || v == min, "value-on-scale-boundary")
			cells = append(cells, cellObs{v, lv, fmt.Sprintf("%s column %d (%q)", where, j, pbt.Trunc(cols[j], 20))})
		}
	}
	if len(cells) > 0 {
		o.Label(true, "cells-checked")
		if err := checkLevels(cells, nlevels, c.Scale, min, max); err != nil {
			return err
		}
	}
	return rowNote(vt, 2+nrows, len(rows)-nrows)
}

func genHeat(t *rapid.T) HeatCase {
	c := HeatCase{Obs: pbt.NewObs()}
	c.Cfg = genCfg(t, true)
	c.Samples, c.Profile = genHistory(t, true, 40, 25, 60)
	c.Cuts = genCuts(t, len(c.Samples))
	c.NumRows = genLimit(t, "rows", 30)
	c.NumCols = genLimit(t, "cols", 45)
	if rapid.IntRange(0, 3).Draw(t, "fixed") == 0 {
		x := rapid.IntRange(1, 3).Draw(t, "which")
		c.FixedMin, c.FixedMax = x&1 != 0, x&2 != 0
		pool := []int64{0, 1, 2, 5, 10, 100, -1, -10, 1000, math.MaxInt64, math.MinInt64, 1 << 62}
		if c.FixedMin {
			c.MinVal = rapid.SampledFrom(pool).Draw(t, "minval")
		}
		if c.FixedMax {
			c.MaxVal = rapid.SampledFrom(pool).Draw(t, "maxval")
		}
	}
	c.SortRows = rapid.SampledFrom(sorterNames).Draw(t, "sortrows")
	c.SortCols = rapid.SampledFrom(sorterNames).Draw(t, "sortcols")
	return c
}

func classifyHeat(c HeatCase) (bool, []string) {
	nt, l := classify2D(c.Profile, c.Cfg, c.Obs, c.NumRows == 0 || c.NumCols == 0)
	if c.FixedMin || c.FixedMax {
		l = append(l, "fixed-min/max")
	}
	return nt || (c.Obs.Has("rows>=3") && c.Obs.Has("cols>=2") && c.Obs.Get("renders") >= 2 && (c.Obs.Has("min>=max") || c.Obs.Has("value-on-scale-boundary"))), l
}

var heatSpec = pbt.Spec[HeatCase]{
	Property: "C14", Name: "heatmap",
	Rule:   "history of (column,row,inc) samples (as for table) fed to the real TableAggregator and rendered through the transcribed cmd/heatmap.go callback (optional --min/--max, then WriteTable + footers) after every cut (1-5 renders) x --num/--cols 0..45 x scale x format x sorters x colour x unicode. Oracle: no panic, header layout returns (watchdog = non-termination); every displayed row shows its key and exactly one cell per displayed column; cell levels (digit, or heat colour) are non-decreasing in the value over the render; on the linear scale proportional within one level, min -> lowest, max -> highest glyph; header '(n more)' == columns not shown, row '(n more)' (line before the footer) == rows not shown, absent when nothing is hidden. Rows with an ESC key: crash-only. Non-trivial: >=3 rows and >=2 columns displayed, >=2 renders, and a hostile feature (negative/zero/huge value, empty/long/multi-byte key, limit 0, more rows/columns than fit, degenerate range, value on a scale boundary)",
	Budget: pbt.Budget{Quick: 32000, Thorough: 600000},
	Gen:    genHeat, Check: heapGuard(checkHeat), Watchdog: caseWatchdog, Classify: classifyHeat,
}

func TestHeatmap(t *testing.T) { pbt.Run(t, heatSpec) }

// ---------- sparkline (cmd/spark.go) -------------------------------------------------

type SparkCase struct {
	Cfg
	Samples            []Sample
	Cuts               []int
	NumRows, NumCols   int
	NoTruncate         bool
	SortRows, SortCols string
	Profile            string
	Obs                *pbt.Obs `json:"-"`
}

// sparkTruncate is the truncation step of cmd/spark.go's render callback
// (columns that do not fit are trimmed from the aggregator unless
// --notruncate), mirrored on the harness' fold: the data that "doesn't fit in
// the sparkline" is dropped, rows left without data too.
func sparkTruncate(counter *aggregation.TableAggregator, g *grid, colSorter sorting.NameValueSorter, numCols int) bool {
	keepCols := counter.OrderedColumns(colSorter)
	if len(keepCols) <= numCols {
		return false
	}
	keepCols = keepCols[len(keepCols)-numCols:]
	keepLookup := make(map[string]struct{})
	for _, item := range keepCols {
		keepLookup[item] = struct{}{}
	}
	counter.Trim(func(col, row string, val int64) bool {
		_, ok := keepLookup[col]
		return !ok
	})
	for rn, r := range g.cells {
		for cn := range r {
			if _, ok := keepLookup[cn]; !ok {
				delete(r, cn)
			}
		}
		if len(r) == 0 {
			delete(g.cells, rn)
		}
	}
	for cn := range g.cols {
		if _, ok := keepLookup[cn]; !ok {
			delete(g.cols, cn)
		}
	}
	return true
}

func checkSpark(c SparkCase) error {
	c.setGlobals()
	o := c.Obs
	scaler, err := buildScaler(c.Scale)
	if err != nil {
		return fmt.Errorf("harness: %v", err)
	}
	formatter, err := buildFormatter(c.Format)
	if err != nil {
		return fmt.Errorf("harness: format %q: %v", c.Format, err)
	}
	oracleFmt, _ := buildFormatter(c.Format)
	rowSorter, colSorter := buildSorter(c.SortRows), buildSorter(c.SortCols)

	// sparkFunction
	counter := aggregation.NewTable(sep)
	vt := multiterm.NewVirtualTerm()
	writer := termrenderers.NewSpark(vt, c.NumRows, c.NumCols)
	writer.Scaler = scaler
	writer.Formatter = formatter

	g := newGrid()
	fed := 0
	cuts := normCuts(c.Cuts, len(c.Samples))
	for ri, cut := range cuts {
		for ; fed < cut; fed++ {
			counter.Sample(c.Samples[fed].str(true))
			g.add(c.Samples[fed])
		}
		// Trim unused data from the data store
		if !c.NoTruncate && sparkTruncate(counter, g, colSorter, c.NumCols) {
			o.Label(true, "truncated")
		}
		writer.WriteTable(counter, rowSorter, colSorter)
		writer.WriteFooter(0, "FOOTER-0")
		writer.WriteFooter(1, "FOOTER-1")

		if err := g.agree(counter); err != nil {
			return err
		}
		if err := checkSparkRender(vt, counter, g, c, oracleFmt, o); err != nil {
			return fmt.Errorf("render %d (after %d samples): %v%s", ri+1, cut, err, dump(vt))
		}
		o.Add("renders", 1)
	}
	writer.Close()
	return nil
}

// nextField reads one blank-separated field at pos: the expected text when
// want != nil, else a run of non-blanks. It returns the visible offset.
func nextField(line string, pos int, want *string, first bool) (text string, off, end int, err error) {
	start := pos
	for pos < len(line) && line[pos] == ' ' {
		pos++
	}
	if !first && pos == start {
		return "", 0, 0, fmt.Errorf("field at byte %d of %q is not separated from the previous one", pos, pbt.Trunc(line, 160))
	}
	off = utf8.RuneCountInString(line[:pos])
	if want != nil {
		if !strings.HasPrefix(line[pos:], *want) {
			return "", 0, 0, fmt.Errorf("want %q at byte %d of %q", *want, pos, pbt.Trunc(line, 160))
		}
		return *want, off, pos + len(*want), nil
	}
	e := pos
	for e < len(line) && line[e] != ' ' {
		e++
	}
	return line[pos:e], off, e, nil
}

func checkSparkRender(vt *multiterm.VirtualTerm, counter *aggregation.TableAggregator, g *grid, c SparkCase, f func(int64, int64, int64) string, o *pbt.Obs) error {
	cols := counter.OrderedColumns(buildSorter(c.SortCols))
	o.Label(len(cols) > c.NumCols, "more-cols-than-fit")
	if len(cols) > c.NumCols {
		cols = cols[len(cols)-c.NumCols:] // right-aligned: the most recent data
	}
	rows := counter.OrderedRows(buildSorter(c.SortRows))
	nrows := len(rows)
	if nrows > c.NumRows {
		nrows = c.NumRows
	}
	o.Label(len(rows) > nrows, "more-rows-than-fit")
	o.Label(nrows >= 3, "rows>=3")
	o.Label(len(cols) >= 2, "cols>=2")
	o.Label(len(cols) == 0 && len(rows) > 0, "no-displayed-column")
	min, max := g.minMax()
	o.Label(min >= max, "min>=max")
	o.Label(max <= 0, "max<=0")
	known := valueOnly(c.Format)
	if !known {
		pbt.Exclude("formatter depending on min/max: displayed number not compared")
	}

	al := newAligner()
	// header: "", First, <first column>...<last column>, Last
	escHdr := false
	for _, cn := range cols {
		labelKey(o, cn)
		escHdr = escHdr || hasESC(cn)
	}
	if len(cols) > 0 && !escHdr {
		h := strip(vt.Get(0))
		t := strings.TrimLeft(h, " ")
		t2 := strings.TrimRight(t, " ")
		if !strings.HasPrefix(t, "First ") || !strings.HasSuffix(t2, " Last") {
			return fmt.Errorf("header line %q: want First ... Last", pbt.Trunc(h, 160))
		}
		// the text between First and Last is never empty and (keys have no
		// outer blanks) starts and ends with a non-blank
		offs := []int{-1, vis(h) - vis(t), vis(h) - vis(strings.TrimLeft(t[len("First"):], " ")), vis(h[:len(h)-len(t)+len(t2)]) - len("Last")}
		if err := al.add("header line", offs); err != nil {
			return err
		}
	}

	var cells []cellObs
	nlevels := 0
	for i := 0; i < nrows; i++ {
		name := rows[i].Name()
		labelKey(o, name)
		if hasESC(name) {
			o.Label(true, "esc-key(crash-only)")
			pbt.Exclude("sparkline row whose key holds ESC: line not parsed")
			continue
		}
		line := strip(vt.Get(1 + i))
		where := fmt.Sprintf("line %d (row %q)", 1+i, pbt.Trunc(name, 30))
		if !strings.HasPrefix(line, name) {
			return fmt.Errorf("%s: shows %q, want the row of key %q", where, pbt.Trunc(line, 120), name)
		}
		offs := []int{-1, -1, -1, -1}
		if name != "" {
			offs[0] = 0
		}
		pos := len(name)
		if len(cols) == 0 {
			// nothing to draw: the key only
			if !allSpaces(line[pos:]) {
				return fmt.Errorf("%s: no column is displayed but the line holds %q after the key", where, pbt.Trunc(line[pos:], 80))
			}
			continue
		}
		var wantFirst, wantLast *string
		if known {
			a, b := f(g.value(name, cols[0]), 0, 0), f(g.value(name, cols[len(cols)-1]), 0, 0)
			wantFirst, wantLast = &a, &b
		}
		var spark string
		var err error
		if _, offs[1], pos, err = nextField(line, pos, wantFirst, name == ""); err != nil {
			return fmt.Errorf("%s: first value: %v (value %d)", where, err, g.value(name, cols[0]))
		}
		if spark, offs[2], pos, err = nextField(line, pos, nil, false); err != nil {
			return fmt.Errorf("%s: sparkline: %v", where, err)
		}
		if _, offs[3], pos, err = nextField(line, pos, wantLast, false); err != nil {
			return fmt.Errorf("%s: last value: %v (value %d)", where, err, g.value(name, cols[len(cols)-1]))
		}
		if !allSpaces(line[pos:]) {
			return fmt.Errorf("%s: unexpected text %q after the last value", where, pbt.Trunc(line[pos:], 80))
		}
		levels, n, err := sparkCells(spark, c.Cfg)
		if err != nil {
			return fmt.Errorf("%s: sparkline %q: %v", where, spark, err)
		}
		if len(levels) != len(cols) {
			return fmt.Errorf("%s: sparkline %q has %d cells, want one per displayed column (%d, --cols %d)", where, spark, len(levels), len(cols), c.NumCols)
		}
		nlevels = n
		for j, lv := range levels {
			v := g.value(name, cols[j])
			labelVal(o, v)
			o.Label(v == max || v == min, "value-on-scale-boundary")
			cells = append(cells, cellObs{v, lv, fmt.Sprintf("%s column %d (%q)", where, j, pbt.Trunc(cols[j], 20))})
		}
		if err := al.add(where, offs); err != nil {
			return err
		}
	}
	if len(cells) > 0 {
		o.Label(true, "cells-checked")
		if err := checkLevels(cells, nlevels, c.Scale, min, max); err != nil {
			return err
		}
	}
	return rowNote(vt, 1+nrows, len(rows)-nrows)
}

func genSpark(t *rapid.T) SparkCase {
	c := SparkCase{Obs: pbt.NewObs()}
	c.Cfg = genCfg(t, true)
	c.Samples, c.Profile = genHistory(t, true, 40, 25, 60)
	c.Cuts = genCuts(t, len(c.Samples))
	c.NumRows = genLimit(t, "rows", 30)
	c.NumCols = genLimit(t, "cols", 45)
	c.NoTruncate = rapid.IntRange(0, 2).Draw(t, "notruncate") == 0
	c.SortRows = rapid.SampledFrom(sorterNames).Draw(t, "sortrows")
	c.SortCols = rapid.SampledFrom(sorterNames).Draw(t, "sortcols")
	return c
}

func classifySpark(c SparkCase) (bool, []string) {
	nt, l := classify2D(c.Profile, c.Cfg, c.Obs, c.NumRows == 0 || c.NumCols == 0)
	if c.NoTruncate {
		l = append(l, "notruncate")
	}
	return nt || (c.Obs.Has("rows>=3") && c.Obs.Has("cols>=2") && c.Obs.Get("renders") >= 2 && (c.Obs.Has("min>=max") || c.Obs.Has("value-on-scale-boundary") || c.Obs.Has("truncated"))), l
}

var sparkSpec = pbt.Spec[SparkCase]{
	Property: "C14", Name: "sparkline",
	Rule:   "history of (column,row,inc) samples (as for table) fed to the real TableAggregator and rendered through the transcribed cmd/spark.go callback (truncation of columns that do not fit unless --notruncate, mirrored on the harness' fold; WriteTable + footers) after every cut (1-5 renders) x --num/--cols 0..45 x scale x format x sorters x colour x unicode. Oracle: no panic/hang; every displayed row shows key, formatter(first displayed column), a sparkline of exactly one cell per displayed column (the last --cols columns), formatter(last displayed column); cell levels non-decreasing in the value over the render, linear: proportional within one level, min -> lowest, max -> highest glyph; key/First/sparkline/Last start at one visible offset on all lines; '(n more)' (line before the footer) == rows not shown, absent otherwise. Rows/headers with an ESC key: crash-only. Non-trivial: as heatmap, or a truncating render",
	Budget: pbt.Budget{Quick: 32000, Thorough: 600000},
	Gen:    genSpark, Check: heapGuard(checkSpark), Watchdog: caseWatchdog, Classify: classifySpark,
}

func TestSparkline(t *testing.T) { pbt.Run(t, sparkSpec) }
