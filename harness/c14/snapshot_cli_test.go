package c14

import (
	"fmt"
	"math"
	"strconv"
	"strings"
	"testing"
	"time"

	"pgregory.net/rapid"
	"rare/pkg/aggregation"
	"rare/pkg/multiterm"
	"verifharness/pbt"
)

// ---------- the real front ends: `rare <aggregator>` with its display flags ---------------
//
// The in-process sub-properties drive the renderers through transcriptions of
// the render callbacks of cmd/*.go; what the commands themselves do between
// the flag table and the renderer (which rows they fetch, how they wire the
// flags, the --all table, the truncation step) is only seen here: the real
// binary is run with the display flags of the command's own flag table and
// its final frame (piped output = `--snapshot`) is read back.

type SnapCase struct {
	Cfg            // --color/--nocolor, --nounicode, --noformat; --scale (ScaleSet), --format (Format != "")
	Agg     string // histo | bars | bars-stacked | table | heatmap | spark | analyze
	Samples []Sample
	Profile string

	Snapshot bool // --snapshot spelled out (a piped stdout implies it)
	ScaleSet bool // --scale given (histo, bars, heatmap, spark)

	NumSet  bool // histo -n/--num; table, heatmap, spark --num/--rows/-n
	Num     int
	NumFlag string
	ColsSet bool // table, heatmap, spark --cols
	Cols    int

	AtLeastSet bool // histo --atleast
	AtLeast    int64
	All        bool // histo -a
	Bars       bool // histo -b
	Pct        bool // histo --percentage
	Extra      bool // histo, table, analyze -x

	RowTotal, ColTotal bool // table
	MinSet, MaxSet     bool // heatmap --min/--max
	Min, Max           int64
	NoTrunc            bool // spark --notruncate

	Sort     string // histo, bars --sort; the others --sort-rows ("" = not given)
	SortCols string // table, heatmap, spark --sort-cols ("" = not given)

	Quantiles []string // analyze -q (nil = not given)
	Reverse   bool     // analyze --reverse

	Obs *pbt.Obs `json:"-"`
}

var snapAggs = []string{"histo", "histo", "bars", "bars-stacked", "table", "heatmap", "spark", "analyze"}

// the defaults of the flag tables in cmd/*.go (heatmap and spark: terminal
// columns - 15, 80 columns when stdout is not a terminal)
var snapDefaults = map[string]struct {
	num, cols      int
	sort, sortCols string
}{
	"histo":        {5, 0, "value", ""},
	"bars":         {0, 0, "numeric", ""},
	"bars-stacked": {0, 0, "numeric", ""},
	"table":        {20, 10, "value", "value"},
	"heatmap":      {20, 65, "numeric", "numeric"},
	"spark":        {20, 65, "value", "numeric"},
}

func (c SnapCase) num() int {
	if c.NumSet {
		return c.Num
	}
	return snapDefaults[c.Agg].num
}

func (c SnapCase) cols() int {
	if c.ColsSet {
		return c.Cols
	}
	return snapDefaults[c.Agg].cols
}

func (c SnapCase) sortRows() string {
	if c.Sort != "" {
		return c.Sort
	}
	return snapDefaults[c.Agg].sort
}

func (c SnapCase) sortCols() string {
	if c.SortCols != "" {
		return c.SortCols
	}
	return snapDefaults[c.Agg].sortCols
}

// lawSorter: the sorters buildSorter knows (total orders on distinct keys);
// under the others (numeric, contextual, date: C13) the order of rows is not
// predicted and the run is crash-only.
func lawSorter(name string) bool {
	switch name {
	case "text", "value", "text:desc", "value:asc", "":
		return true
	}
	return false
}

func snapArgs(c SnapCase) ([]string, error) {
	args := globalFlags(c.Cfg)
	i64 := func(name string, v int64) string { return name + "=" + strconv.FormatInt(v, 10) }
	numFlag := c.NumFlag
	if numFlag == "" {
		numFlag = "--num"
	}
	two := "{$ {1} {2} {3}}"
	rowsCols := func() {
		if c.NumSet {
			args = append(args, numFlag, strconv.Itoa(c.Num))
		}
		if c.ColsSet {
			args = append(args, "--cols", strconv.Itoa(c.Cols))
		}
		if c.Sort != "" {
			args = append(args, "--sort-rows", c.Sort)
		}
		if c.SortCols != "" {
			args = append(args, "--sort-cols", c.SortCols)
		}
	}
	scale := func() {
		if c.ScaleSet {
			args = append(args, "--scale", c.Scale)
		}
	}
	switch c.Agg {
	case "histo":
		args = append(args, "histo", "-e", "{$ {1} {3}}")
		if c.NumSet {
			args = append(args, numFlag, strconv.Itoa(c.Num))
		}
		if c.AtLeastSet {
			args = append(args, i64("--atleast", c.AtLeast))
		}
		if c.All {
			args = append(args, "-a")
		}
		if c.Bars {
			args = append(args, "-b")
		}
		if c.Pct {
			args = append(args, "--percentage")
		}
		if c.Extra {
			args = append(args, "-x")
		}
		if c.Sort != "" {
			args = append(args, "--sort", c.Sort)
		}
		scale()
	case "bars", "bars-stacked":
		args = append(args, "bars", "-e", two)
		if c.Agg == "bars-stacked" {
			args = append(args, "-s")
		}
		if c.Sort != "" {
			args = append(args, "--sort", c.Sort)
		}
		scale()
	case "table":
		args = append(args, "table", "-e", two)
		rowsCols()
		if c.RowTotal {
			args = append(args, "--rowtotal")
		}
		if c.ColTotal {
			args = append(args, "--coltotal")
		}
		if c.Extra {
			args = append(args, "-x")
		}
	case "heatmap":
		args = append(args, "heatmap", "-e", two)
		rowsCols()
		if c.MinSet {
			args = append(args, i64("--min", c.Min))
		}
		if c.MaxSet {
			args = append(args, i64("--max", c.Max))
		}
		scale()
	case "spark":
		args = append(args, "spark", "-e", two)
		rowsCols()
		if c.NoTrunc {
			args = append(args, "--notruncate")
		}
		scale()
	case "analyze":
		args = append(args, "analyze", "-e", "{3}")
		if c.Extra {
			args = append(args, "-x")
		}
		if c.Reverse {
			args = append(args, "--reverse")
		}
		for _, q := range c.Quantiles {
			args = append(args, "-q", q)
		}
	default:
		return nil, fmt.Errorf("harness: unknown aggregator %q", c.Agg)
	}
	if c.Format != "" && c.Agg != "analyze" {
		args = append(args, "--format", c.Format)
	}
	if c.Snapshot {
		args = append(args, "--snapshot")
	}
	return append(args, "-m", cliMatch), nil
}

// frameTerm puts the lines of a frame read from stdout back into a
// VirtualTerm, the two footer lines (summary, read status) replaced by the
// markers the in-process sub-properties write as footers.
func frameTerm(frame []string) (vt *multiterm.VirtualTerm, footer int) {
	vt = multiterm.NewVirtualTerm()
	footer = -1
	for i, l := range frame {
		if strings.HasPrefix(strip(l), "Matched: ") {
			footer = i
		}
	}
	for i, l := range frame {
		switch {
		case footer >= 0 && i == footer:
			l = "FOOTER-0"
		case footer >= 0 && i == footer+1:
			l = "FOOTER-1"
		}
		vt.WriteForLine(i, l)
	}
	return vt, footer
}

func checkSnap(c SnapCase) error {
	c.setGlobals()
	o := c.Obs
	var lines []string
	var acc []Sample // the samples that are input lines
	for _, s := range c.Samples {
		if !cliKeyOK(string(s.A)) || !cliKeyOK(string(s.B)) {
			pbt.Exclude("key with a line or field separator: cannot be an input line field")
			continue
		}
		lines = append(lines, cliLine(string(s.A), string(s.B), s.inc()))
		acc = append(acc, s)
	}
	args, err := snapArgs(c)
	if err != nil {
		return err
	}
	res, ok, err := runRare(lines, args...)
	if err != nil {
		return fmt.Errorf("rare %q on %d lines: %w", args, len(lines), err)
	}
	if !ok {
		return nil
	}
	o.Label(true, "ran")
	if crashed(res) {
		return fmt.Errorf("rare %q crashed (exit %d) on %d lines:\n%s", args, res.exit, len(lines), pbt.Trunc(res.stderr, 1500))
	}
	wantExit := 0
	if len(lines) == 0 {
		wantExit = 1
	}
	if res.exit != wantExit {
		return fmt.Errorf("rare %q: exit status %d, want %d; stderr %s", args, res.exit, wantExit, pbt.Trunc(res.stderr, 400))
	}
	if !strings.Contains(res.stdout, "Matched: ") {
		return fmt.Errorf("rare %q: the final frame (summary line) is missing from stdout: %s", args, pbt.Trunc(res.stdout, 400))
	}
	o.Label(len(lines) >= 3, "lines>=3")

	// the laws of the in-process sub-properties, on the frame the command drew
	out := strings.Split(strings.TrimSuffix(res.stdout, "\n"), "\n")
	if err := snapLaws(c, acc, out, o); err != nil {
		return fmt.Errorf("rare %q on %d lines: %v\nstdout:\n%s", args, len(lines), err, pbt.Trunc(res.stdout, 3000))
	}
	return nil
}

func snapLaws(c SnapCase, acc []Sample, out []string, o *pbt.Obs) error {
	if c.Agg == "analyze" {
		return nil // no renderer of the statement: crash layer
	}
	if !lawSorter(c.sortRows()) || !lawSorter(c.sortCols()) {
		o.Label(true, "crash-only:sorter-of-C13")
		pbt.Exclude("rows or columns ordered by numeric/contextual/date (C13): frame not parsed")
		return nil
	}
	oracleFmt, err := buildFormatter(c.Format)
	if err != nil {
		return fmt.Errorf("harness: format %q: %v", c.Format, err)
	}
	inc := func(s Sample) string { return strconv.FormatInt(s.inc(), 10) }

	switch c.Agg {
	case "histo":
		frame, full := out, []string(nil)
		if c.All {
			at := -1
			for i, l := range out {
				if l == "Full Table:" {
					at = i
					break
				}
			}
			if at < 0 {
				return fmt.Errorf("-a: no \"Full Table:\" line after the final frame")
			}
			frame, full = out[:at], out[at+1:]
		}
		counter := aggregation.NewCounter()
		model := map[string]int64{}
		var total int64
		for _, s := range acc {
			counter.Sample(string(s.A) + sep + inc(s))
			model[string(s.A)] += s.inc()
			total += s.inc()
		}
		n, atLeast := c.num(), int64(0)
		if c.AtLeastSet {
			atLeast = c.AtLeast
		}
		filters := false
		for _, v := range model {
			filters = filters || v < atLeast
		}
		o.Label(c.AtLeastSet && atLeast > 0, "histo:atleast>0")
		o.Label(filters, "histo:atleast-filters")
		hc := HistoCase{Cfg: c.Cfg, N: n, AtLeast: atLeast, Sort: c.sortRows(), Bars: c.Bars || c.Extra, Pct: c.Pct || c.Extra, Profile: c.Profile}
		sorter := buildSorter(hc.Sort)

		vt, footer := frameTerm(frame)
		if footer != n || len(frame) != n+2 {
			return fmt.Errorf("histogram frame: %d lines with the summary on line %d, want %d row lines followed by the two footer lines", len(frame), footer, n)
		}
		if filters && hc.Sort != "value" {
			// whether the threshold applies before or after the cut to -n
			// rows only coincides for the descending value order
			o.Label(true, "crash-only:atleast-under-non-value-order")
			pbt.Exclude("histo --atleast dropping groups under an order other than by value: rows not predicted")
		} else {
			shown, err := histoShown(counter, model, n, sorter, atLeast)
			if err != nil {
				return err
			}
			hm := int64(math.MinInt64)
			if err := checkHistoRender(vt, shown, total, hc, oracleFmt, &hm, o); err != nil {
				return fmt.Errorf("final frame: %v", err)
			}
			o.Label(len(model) > n, "more-rows-than-fit")
			o.Label(len(shown) >= 3, "rows>=3")
			o.Label(true, "frame-checked")
		}
		if c.All {
			if len(full) == 0 || !strings.HasPrefix(strip(full[len(full)-1]), "Matched: ") {
				return fmt.Errorf("-a: the full table does not end with the summary line")
			}
			vfull := multiterm.NewVirtualTerm()
			for i, l := range full[:len(full)-1] {
				vfull.WriteForLine(i, l)
			}
			shown, err := histoShown(counter, model, counter.GroupCount(), sorter, atLeast)
			if err != nil {
				return err
			}
			if vfull.LineCount() > len(shown) {
				return fmt.Errorf("-a: the full table has %d lines, %d of %d groups reach --atleast %d", vfull.LineCount(), len(shown), len(model), atLeast)
			}
			// the --all writer uses the defaults of NewHistogram
			dc := hc
			dc.Scale, dc.Format, dc.Bars, dc.Pct = "linear", "", true, true
			df, _ := buildFormatter("")
			hm := int64(math.MinInt64)
			if err := checkHistoRender(vfull, shown, total, dc, df, &hm, o); err != nil {
				return fmt.Errorf("-a full table: %v", err)
			}
			o.Label(true, "full-table-checked")
		}
		return nil

	case "bars", "bars-stacked":
		stacked := c.Agg == "bars-stacked"
		counter := aggregation.NewSubKeyCounter()
		model := map[string]map[string]int64{}
		subSet := map[string]bool{}
		for _, s := range acc {
			counter.Sample(string(s.A) + sep + string(s.B) + sep + inc(s))
			if model[string(s.A)] == nil {
				model[string(s.A)] = map[string]int64{}
			}
			model[string(s.A)][string(s.B)] += s.inc()
			subSet[string(s.B)] = true
		}
		bc := BarsCase{Cfg: c.Cfg, Stacked: stacked, ScaleSet: c.ScaleSet, Sort: c.sortRows(), Profile: c.Profile}
		rows, subs, err := barsShown(counter, model, subSet, buildSorter(bc.Sort))
		if err != nil {
			return err
		}
		vt, _ := frameTerm(out)
		var maxEver int64 // the renderer's reference maximum starts at 0
		o.Label(len(rows) >= 3, "rows>=3")
		o.Label(len(subs) > 12, "subkeys>palette")
		o.Label(true, "frame-checked")
		if stacked {
			return checkStackedRender(vt, rows, subs, bc, oracleFmt, &maxEver, o)
		}
		return checkGroupedRender(vt, rows, subs, bc, c.Scale, oracleFmt, &maxEver, o)
	}

	// table, heatmap, spark
	counter := aggregation.NewTable(sep)
	g := newGrid()
	for _, s := range acc {
		counter.Sample(string(s.A) + sep + string(s.B) + sep + inc(s))
		g.add(s)
	}
	vt, footer := frameTerm(out)
	if footer < 0 {
		return fmt.Errorf("no summary line in the final frame")
	}
	o.Label(true, "frame-checked")
	switch c.Agg {
	case "table":
		tc := TableCase{Cfg: c.Cfg, NumRows: c.num(), NumCols: c.cols(), RowTotals: c.RowTotal || c.Extra, ColTotals: c.ColTotal || c.Extra,
			SortRows: c.sortRows(), SortCols: c.sortCols(), Profile: c.Profile}
		if err := g.agree(counter); err != nil {
			return err
		}
		return checkTableRender(vt, counter, g, tc, oracleFmt, o)
	case "heatmap":
		hc := HeatCase{Cfg: c.Cfg, NumRows: c.num(), NumCols: c.cols(), FixedMin: c.MinSet, FixedMax: c.MaxSet, MinVal: c.Min, MaxVal: c.Max,
			SortRows: c.sortRows(), SortCols: c.sortCols(), Profile: c.Profile}
		minVal, maxVal := int64(0), int64(0) // c.Int64 of an unset flag
		if c.MinSet {
			minVal = c.Min
		}
		if c.MaxSet {
			maxVal = c.Max
		}
		if err := g.agree(counter); err != nil {
			return err
		}
		return checkHeatRender(vt, counter, g, hc, minVal, maxVal, o)
	case "spark":
		sc := SparkCase{Cfg: c.Cfg, NumRows: c.num(), NumCols: c.cols(), NoTruncate: c.NoTrunc, SortRows: c.sortRows(), SortCols: c.sortCols(), Profile: c.Profile}
		if !sc.NoTruncate && sparkTruncate(counter, g, buildSorter(sc.SortCols), sc.NumCols) {
			o.Label(true, "truncated")
		}
		if err := g.agree(counter); err != nil {
			return err
		}
		return checkSparkRender(vt, counter, g, sc, oracleFmt, o)
	}
	return fmt.Errorf("harness: unknown aggregator %q", c.Agg)
}

var snapSorts = []string{"", "text", "text", "value", "value", "value", "text:desc", "value:asc", "value:asc", "numeric", "contextual", "date"}

func genSnap(t *rapid.T) SnapCase {
	c := SnapCase{Obs: pbt.NewObs()}
	c.Agg = rapid.SampledFrom(snapAggs).Draw(t, "agg")
	scaled := c.Agg == "histo" || c.Agg == "bars" || c.Agg == "heatmap" || c.Agg == "spark"
	c.Cfg = genCfg(t, scaled)
	c.ScaleSet = scaled && rapid.IntRange(0, 3).Draw(t, "scaleset") > 0
	if !c.ScaleSet {
		c.Scale = "linear"
	}
	c.Snapshot = rapid.IntRange(0, 3).Draw(t, "snapshot") > 0
	set := func(label string) bool { return rapid.IntRange(0, 4).Draw(t, label) > 0 }
	switch c.Agg {
	case "histo":
		c.Samples, c.Profile = genHistory(t, false, 25, 1, 60)
		c.NumSet = set("numset")
		c.Num = rapid.SampledFrom([]int{0, 1, 2, 3, 5, 5, 8, 20, 30}).Draw(t, "n")
		c.NumFlag = rapid.SampledFrom([]string{"-n", "--num"}).Draw(t, "numflag")
		if rapid.Bool().Draw(t, "atleastset") {
			c.AtLeastSet = true
			c.AtLeast = rapid.SampledFrom([]int64{0, 1, 1, 2, 2, 3, 5, 10, 1000, -5, math.MinInt64, math.MaxInt64}).Draw(t, "atleast")
		}
		c.All = rapid.IntRange(0, 2).Draw(t, "all") == 0
		x := rapid.IntRange(0, 7).Draw(t, "show")
		c.Bars, c.Pct, c.Extra = x&1 != 0, x&2 != 0, x&4 != 0
		c.Sort = rapid.SampledFrom(snapSorts).Draw(t, "sort")
	case "bars", "bars-stacked":
		maxSub := rapid.SampledFrom([]int{1, 3, 6, 14, 20, 40}).Draw(t, "maxsub")
		c.Samples, c.Profile = genHistory(t, true, 25, maxSub, 60)
		c.Sort = rapid.SampledFrom(snapSorts).Draw(t, "sort")
	case "table", "heatmap", "spark":
		c.Samples, c.Profile = genHistory(t, true, 40, 25, 60)
		c.NumSet = set("numset")
		c.Num = genLimit(t, "num", 30)
		c.NumFlag = rapid.SampledFrom([]string{"--num", "--rows", "-n"}).Draw(t, "numflag")
		c.ColsSet = set("colsset")
		c.Cols = genLimit(t, "cols", 45)
		c.Sort = rapid.SampledFrom(snapSorts).Draw(t, "sortrows")
		c.SortCols = rapid.SampledFrom(snapSorts).Draw(t, "sortcols")
		switch c.Agg {
		case "table":
			x := rapid.IntRange(0, 7).Draw(t, "totals")
			c.RowTotal, c.ColTotal, c.Extra = x&1 != 0, x&2 != 0, x == 4
		case "heatmap":
			if rapid.IntRange(0, 2).Draw(t, "fixed") == 0 {
				x := rapid.IntRange(1, 3).Draw(t, "which")
				c.MinSet, c.MaxSet = x&1 != 0, x&2 != 0
				pool := []int64{0, 1, 2, 5, 10, 100, -1, -10, 1000, math.MaxInt64, math.MinInt64, 1 << 62}
				if c.MinSet {
					c.Min = rapid.SampledFrom(pool).Draw(t, "minval")
				}
				if c.MaxSet {
					c.Max = rapid.SampledFrom(pool).Draw(t, "maxval")
				}
			}
		case "spark":
			c.NoTrunc = rapid.IntRange(0, 2).Draw(t, "notrunc") == 0
		}
	case "analyze":
		c.Samples, c.Profile = genHistory(t, false, 5, 1, 60)
		c.Format = ""
		c.Extra = rapid.IntRange(0, 3).Draw(t, "extra") > 0
		c.Reverse = rapid.Bool().Draw(t, "reverse")
		if rapid.Bool().Draw(t, "qset") {
			nq := rapid.IntRange(1, 3).Draw(t, "nq")
			for i := 0; i < nq; i++ {
				c.Quantiles = append(c.Quantiles, rapid.SampledFrom([]string{"0", "50", "25.5", "90", "99.9", "100", "1e1"}).Draw(t, "q"))
			}
		}
	}
	return c
}

func classifySnap(c SnapCase) (bool, []string) {
	o := c.Obs
	l := pbt.Labels{"agg:" + c.Agg, "profile:" + c.Profile, "scale:" + c.Scale}
	l.Add(c.Color, "color")
	l.Add(c.Unicode, "unicode")
	l.Add(c.Format != "", "custom-format")
	l.Add((c.NumSet && c.Num == 0) || (c.ColsSet && c.Cols == 0), "limit-0")
	l.Add(!c.Snapshot, "piped-without---snapshot")
	l.Add(c.Agg == "histo" && c.All, "histo:-a")
	l.Add(c.Agg == "histo" && (c.Bars || c.Pct || c.Extra), "histo:-b/--percentage/-x")
	l.Add(c.Agg == "table" && (c.RowTotal || c.ColTotal || c.Extra), "table:totals")
	l.Add(c.Agg == "heatmap" && (c.MinSet || c.MaxSet), "heatmap:--min/--max")
	l.Add(c.Agg == "spark" && c.NoTrunc, "spark:--notruncate")
	l.Add(c.Agg == "analyze" && c.Extra, "analyze:-x")
	l.Add(c.Agg == "analyze" && c.Quantiles != nil, "analyze:-q")
	for _, k := range o.All() {
		l = append(l, c.Agg+"/"+k)
	}
	return o.Has("ran") && o.Has("lines>=3"), l
}

var snapSpec = pbt.Spec[SnapCase]{
	Property: "C14", Name: "snapshot-cli",
	Rule:   "the real binary: `rare {histo,bars,bars -s,table,heatmap,spark,analyze}` with piped stdout (with and without --snapshot) on the sample histories of the in-process sub-properties written as input lines (keys with line/field separators left out) x the display flags of the command's flag table, each given or left at its default: histo -n/--num 0..30, --atleast (0, 1..1000, negative, int64 limits), -a, -b, --percentage, -x, --sort, --scale, --format; bars [-s] --sort --scale --format; table/heatmap/spark --num/--rows/-n and --cols 0..45, --sort-rows/--sort-cols, table --rowtotal/--coltotal/-x, heatmap --min/--max/--scale, spark --notruncate/--scale; analyze -x, -q, --reverse; x --color/--nocolor, --nounicode, --noformat. Oracle, crash layer (every run): the process exits (no hang, RSS < 2 GiB), no panic or fatal error on stderr, exit status 0 (1 without input), the final frame with its summary line is on stdout. Law layer (sorters text/value, asc/desc): the frame read back from stdout satisfies the laws of the in-process sub-property of that renderer for one render (rows/cells/totals = formatter(value of an independent fold), bar and cell-level laws, column alignment, '(n more)' notes, one cell per displayed column); histo: the footer follows -n row lines, the rows are those reaching --atleast (not predicted when the threshold drops groups under an order other than by value), the -a table lists every group reaching --atleast. Non-trivial: ran on >=3 lines",
	Budget: pbt.Budget{Quick: 2400, Thorough: 48000},
	Gen:    genSnap, Check: checkSnap, Classify: classifySnap, Watchdog: 150 * time.Second,
}

func TestSnapshotCLI(t *testing.T) { pbt.Run(t, snapSpec) }
