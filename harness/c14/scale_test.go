package c14

import (
	"fmt"
	"math"
	"math/big"
	"sort"
	"testing"

	"pgregory.net/rapid"
	"rare/pkg/color"
	"rare/pkg/multiterm/termscaler"
	"rare/pkg/multiterm/termunicode"
	"verifharness/pbt"
)

// ---------- scaler laws (pkg/multiterm/termscaler) --------------------------------
//
// "Scaled magnitudes lie in [0,1] and are monotone in the value", for every
// (val,min,max) in int64 and every scale (linear, log2, log10). Bucket,
// LengthVal and ScaleKeys are the three consumers of a scaled magnitude; their
// documented ranges ("Return [0, bucket-1]", "Return [0, maxLen]", "won't
// return dupes") are what keeps palette lookups and bar lengths within bounds.

type ScaleCase struct {
	Scale    string
	Min, Max int64
	Vals     []int64 // checked in ascending order
	Buckets  []int   // bucket counts (>= 1) and bar lengths (>= 0) to try
	Keys     int64   // ScaleKeys bucket count (>= 2)
	Src      string  // grid | pool | random
}

var boundaryPool = []int64{
	math.MinInt64, math.MinInt64 + 1, -(1 << 62), -(1 << 53) - 1, -(1 << 31), -1000, -100, -10, -9, -2, -1,
	0, 1, 2, 3, 9, 10, 11, 99, 100, 101, 999, 1000, 1024, 1<<31 - 1, 1 << 31, 1<<53 - 1, 1<<53 + 1,
	1000000000000000000, 1 << 62, math.MaxInt64/50 + 1, math.MaxInt64 - 1, math.MaxInt64,
}

var bucketCounts = []int{1, 2, 3, 4, 6, 9, 10, 16, 50, 400}

func scalerOf(name string) (termscaler.Scaler, error) {
	s, ok := termscaler.ScalerByName(name)
	if !ok {
		return s, fmt.Errorf("harness: unknown scale %q", name)
	}
	return s, nil
}

type discard struct{ n int }

func (d *discard) WriteString(s string) (int, error) { d.n += vis(s); return len(s), nil }

func checkScale(c ScaleCase) error {
	s, err := scalerOf(c.Scale)
	if err != nil {
		return err
	}
	vals := append([]int64(nil), c.Vals...)
	sort.Slice(vals, func(i, j int) bool { return vals[i] < vals[j] })
	prev, prevVal := math.Inf(-1), int64(0)
	prevLen := map[int]int{}
	for i, v := range vals {
		u := s.Scale(v, c.Min, c.Max)
		if math.IsNaN(u) || u < 0 || u > 1 {
			return fmt.Errorf("%s Scale(%d, %d, %d) = %v, want a magnitude in [0,1]", c.Scale, v, c.Min, c.Max, u)
		}
		if i > 0 && u < prev {
			return fmt.Errorf("%s Scale is not monotone in the value on [%d,%d]: Scale(%d) = %v > Scale(%d) = %v", c.Scale, c.Min, c.Max, prevVal, prev, v, u)
		}
		prev, prevVal = u, v
		// proportional on the linear scale (the definition of linear),
		// reference in exact rational arithmetic; tolerance 1e-9 absolute
		// (float64 rounding of three int64 -> float64 conversions).
		if c.Scale == "linear" && c.Min < c.Max {
			want := 0.0
			switch {
			case v <= c.Min:
				want = 0
			case v >= c.Max:
				want = 1
			default:
				num := new(big.Int).Sub(big.NewInt(v), big.NewInt(c.Min))
				den := new(big.Int).Sub(big.NewInt(c.Max), big.NewInt(c.Min))
				want, _ = new(big.Rat).SetFrac(num, den).Float64()
			}
			// float64 carries 53 bits: each int64 -> float64 conversion
			// is off by up to 2^-53 relative, which the division by
			// (max-min) amplifies; beyond +-2^53 a narrow range cannot
			// be resolved at all and is not compared.
			span, _ := new(big.Float).SetInt(new(big.Int).Sub(big.NewInt(c.Max), big.NewInt(c.Min))).Float64()
			tol := 1e-9 + 8*0x1p-53*(math.Abs(float64(v))+math.Abs(float64(c.Min))+math.Abs(float64(c.Max)))/span
			if tol > 0.01 {
				pbt.Exclude("linear proportionality below float64 resolution (range narrow relative to |values| > 2^53)")
			} else if math.Abs(u-want) > tol {
				return fmt.Errorf("linear Scale(%d, %d, %d) = %v, want (val-min)/(max-min) = %v (+-%g)", v, c.Min, c.Max, u, want, tol)
			}
		}
		for _, n := range c.Buckets {
			if n >= 1 {
				if b := s.Bucket(n, v, c.Min, c.Max); b < 0 || b > n-1 {
					return fmt.Errorf("%s Bucket(%d, %d, %d, %d) = %d, want [0,%d]", c.Scale, n, v, c.Min, c.Max, b, n-1)
				}
				if b := termscaler.Bucket(n, u); b < 0 || b > n-1 {
					return fmt.Errorf("Bucket(%d, %v) = %d, want [0,%d]", n, u, b, n-1)
				}
			}
			l := s.LengthVal(n, v, c.Min, c.Max)
			if l < 0 || l > n {
				return fmt.Errorf("%s LengthVal(%d, %d, %d, %d) = %d, want [0,%d]", c.Scale, n, v, c.Min, c.Max, l, n)
			}
			if pl, ok := prevLen[n]; ok && i > 0 && l < pl {
				return fmt.Errorf("%s LengthVal(%d, ., %d, %d) shrinks while the value grows: %d cells -> %d cells at value %d", c.Scale, n, c.Min, c.Max, pl, l, v)
			}
			prevLen[n] = l
		}
		// the glyph writers index their palettes with the magnitude
		for _, col := range []bool{false, true} {
			for _, uni := range []bool{false, true} {
				color.Enabled, termunicode.UnicodeEnabled = col, uni
				var d discard
				termunicode.HeatWrite(&d, u)
				termunicode.SparkWrite(&d, u)
				var bar discard
				termunicode.BarWrite(&bar, u, 50)
				if bar.n > 50 {
					return fmt.Errorf("BarWrite(%v, 50) wrote %d cells", u, bar.n)
				}
			}
		}
	}
	if c.Keys >= 2 {
		keys := s.ScaleKeys(c.Keys, c.Min, c.Max)
		if len(keys) == 0 || int64(len(keys)) > c.Keys {
			return fmt.Errorf("%s ScaleKeys(%d, %d, %d) returns %d keys", c.Scale, c.Keys, c.Min, c.Max, len(keys))
		}
		for i := 1; i < len(keys); i++ {
			if keys[i] <= keys[i-1] {
				return fmt.Errorf("%s ScaleKeys(%d, %d, %d) = %v: not increasing at index %d (duplicates or disorder)", c.Scale, c.Keys, c.Min, c.Max, keys, i)
			}
		}
	}
	return nil
}

func classifyScale(c ScaleCase) (bool, []string) {
	l := pbt.Labels{"scale:" + c.Scale, "src:" + c.Src}
	l.Add(c.Min == c.Max, "min==max")
	l.Add(c.Min > c.Max, "min>max")
	l.Add(c.Min < 0, "min<0")
	l.Add(c.Max <= 0, "max<=0")
	l.Add(c.Max == math.MaxInt64 || c.Min == math.MinInt64, "int64-limit")
	in, on := false, false
	for _, v := range c.Vals {
		if v > c.Min && v < c.Max {
			in = true
		}
		if v == c.Min || v == c.Max {
			on = true
		}
	}
	l.Add(in, "val-inside")
	l.Add(on, "val-on-boundary")
	return len(c.Vals) >= 2, l
}

var scaleRule = "scaler laws over (val,min,max) in int64^3 x {linear,log2,log10}: Scale in [0,1] and never NaN, non-decreasing in val, linear Scale == (val-min)/(max-min) (exact rational reference, 1e-9); Bucket(n) in [0,n-1] and LengthVal(n) in [0,n] and non-decreasing, for n in {1..400}; HeatWrite/SparkWrite/BarWrite accept the magnitude in all colour/unicode modes (bar <= 50 cells); ScaleKeys(k>=2) strictly increasing, 1..k keys. Non-trivial: >=2 values compared"

var scaleSpec = pbt.Spec[ScaleCase]{
	Property: "C14", Name: "scaler-laws", Rule: "random: " + scaleRule,
	Budget: pbt.Budget{Quick: 80000, Thorough: 1500000},
	Gen:    genScale, Check: checkScale, Classify: classifyScale,
}

func genI64(t *rapid.T, label string) int64 {
	switch rapid.IntRange(0, 5).Draw(t, label+"kind") {
	case 0, 1:
		return rapid.SampledFrom(boundaryPool).Draw(t, label+"pool")
	case 2:
		return rapid.Int64Range(-20, 120).Draw(t, label+"small")
	case 3:
		// powers of the log bases and their neighbours
		b := rapid.SampledFrom([]int64{2, 10}).Draw(t, label+"base")
		e := rapid.IntRange(0, 62).Draw(t, label+"exp")
		v := int64(1)
		for i := 0; i < e && v <= math.MaxInt64/b; i++ {
			v *= b
		}
		return v + rapid.Int64Range(-1, 1).Draw(t, label+"d")
	default:
		return rapid.Int64().Draw(t, label+"any")
	}
}

func genScale(t *rapid.T) ScaleCase {
	c := ScaleCase{Src: "random"}
	c.Scale = rapid.SampledFrom([]string{"linear", "log2", "log10"}).Draw(t, "scale")
	c.Min = genI64(t, "min")
	c.Max = genI64(t, "max")
	if rapid.IntRange(0, 9).Draw(t, "order") > 0 && c.Min > c.Max {
		c.Min, c.Max = c.Max, c.Min
	}
	n := rapid.IntRange(2, 8).Draw(t, "nvals")
	for i := 0; i < n; i++ {
		switch rapid.IntRange(0, 3).Draw(t, "vkind") {
		case 0:
			c.Vals = append(c.Vals, genI64(t, "v"))
		case 1:
			d := rapid.Int64Range(-2, 2).Draw(t, "dv")
			base := c.Min
			if rapid.Bool().Draw(t, "atmax") {
				base = c.Max
			}
			if (d > 0 && base > math.MaxInt64-d) || (d < 0 && base < math.MinInt64-d) {
				d = 0
			}
			c.Vals = append(c.Vals, base+d)
		default:
			lo, hi := c.Min, c.Max
			if lo > hi {
				lo, hi = hi, lo
			}
			c.Vals = append(c.Vals, rapid.Int64Range(lo, hi).Draw(t, "vin"))
		}
	}
	c.Buckets = []int{rapid.SampledFrom(bucketCounts).Draw(t, "b1"), rapid.SampledFrom(bucketCounts).Draw(t, "b2"), rapid.IntRange(0, 60).Draw(t, "b3")}
	c.Keys = rapid.Int64Range(2, 12).Draw(t, "keys")
	return c
}

func TestScalerLaws(t *testing.T) { pbt.Run(t, scaleSpec) }

// bounded-exhaustive: every (min,max) pair of the boundary pool and of the
// grid -3..24, each with the whole value set in one case.
func TestScalerLawsExhaustive(t *testing.T) {
	spec := scaleSpec
	spec.Name = "scaler-laws-exhaustive"
	spec.Rule = "bounded-exhaustive (all (min,max) pairs of the 33-value int64 boundary pool with all 33 values, and of the grid -3..24 with all 28 values, x 3 scales, ScaleKeys 2..7): " + scaleRule
	var grid []int64
	for v := int64(-3); v <= 24; v++ {
		grid = append(grid, v)
	}
	pbt.Enum(t, spec, func(yield func(ScaleCase) bool) {
		for _, sc := range []string{"linear", "log2", "log10"} {
			for _, set := range []struct {
				name string
				vals []int64
			}{{"pool", boundaryPool}, {"grid", grid}} {
				for i, mn := range set.vals {
					for j, mx := range set.vals {
						c := ScaleCase{Scale: sc, Min: mn, Max: mx, Vals: set.vals, Buckets: bucketCounts, Keys: int64(2 + (i+j)%6), Src: set.name}
						if !yield(c) {
							return
						}
					}
				}
			}
		}
	})
}
