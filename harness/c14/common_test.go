// C14 — renderers never crash and draw quantities proportionally within bounds.
//
// Aggregator states are produced from generated sample histories fed to the
// real aggregators; every renderer is driven with the calling pattern of its
// command (cmd/histo.go, cmd/bargraph.go, cmd/tabulate.go, cmd/heatmap.go,
// cmd/spark.go transcribed below; cmd/reduce.go through the CLI binary) into
// a multiterm.VirtualTerm, repeatedly while the history grows. The commands'
// own code between flag table and renderer is covered by snapshot_cli_test.go:
// the real binary with every display flag, its final frame read back under
// the same per-render laws.
package c14

import (
	"fmt"
	"math"
	"regexp"
	"runtime"
	"sort"
	"strconv"
	"strings"
	"time"
	"unicode/utf8"

	"pgregory.net/rapid"
	"rare/pkg/aggregation/sorting"
	"rare/pkg/color"
	"rare/pkg/humanize"
	"rare/pkg/multiterm"
	"rare/pkg/multiterm/termformat"
	"rare/pkg/multiterm/termscaler"
	"rare/pkg/multiterm/termunicode"
	"verifharness/pbt"
)

const sep = "\x00" // expressions.ArraySeparatorString, the {$ a b} separator

// ---------- configuration shared by all renderers ----------------------------

type Cfg struct {
	Color    bool   // color.Enabled (--color / --nocolor)
	Unicode  bool   // termunicode.UnicodeEnabled (--nounicode)
	Humanize bool   // humanize.Enabled (--noformat)
	Scale    string // --scale: linear | log2 | log10
	Format   string // --format: "" (default) or an expression
}

// setGlobals resets every global switch of rare the renderers read.
func (c Cfg) setGlobals() {
	color.Enabled = c.Color
	termunicode.UnicodeEnabled = c.Unicode
	humanize.Enabled = c.Humanize
	humanize.Decimals = 4
	multiterm.AutoTrim = false
}

// formats the generator draws from. valueOnly says whether the text depends
// on the value alone: only for those the statement ("displayed numbers equal
// the aggregated numbers under the chosen formatter") fixes the text without
// saying which min/max a renderer hands to the formatter.
var formats = []struct {
	expr      string
	valueOnly bool
}{
	{"", true},
	{"", true},
	{"bytesize", true},
	{"downscale", true},
	{"{0}u", true},
	{"v={0}", true},
	{"{bytesize {value}}", true},
	{"{percent {0} 2 {1} {2}}", false},
	{"{0}/{min}/{max}", false},
}

func valueOnly(expr string) bool {
	for _, f := range formats {
		if f.expr == expr {
			return f.valueOnly
		}
	}
	return false
}

// buildFormatter is cmd/helpers.BuildFormatter: "" -> termformat.Default.
func buildFormatter(expr string) (termformat.Formatter, error) {
	if expr == "" {
		return termformat.Default, nil
	}
	return termformat.FromExpression(expr)
}

// buildScaler is cmd/helpers.BuildScaler.
func buildScaler(name string) (termscaler.Scaler, error) {
	if name == "" {
		return termscaler.ScalerLinear, nil
	}
	if s, ok := termscaler.ScalerByName(name); ok {
		return s, nil
	}
	return termscaler.ScalerNull, fmt.Errorf("invalid scaler %q", name)
}

// buildSorter is cmd/helpers.BuildSorter restricted to the sorters whose
// result is a total order on distinct keys (text, value and their reverses);
// numeric/contextual/date belong to C13.
func buildSorter(name string) sorting.NameValueSorter {
	switch name {
	case "text":
		return sorting.ValueNilSorter(sorting.ByName)
	case "text:desc":
		return sorting.Reverse(sorting.ValueNilSorter(sorting.ByName))
	case "value:asc":
		return sorting.ValueSorterEx(sorting.ByName)
	default: // "value": descending by default
		return sorting.Reverse(sorting.ValueSorterEx(sorting.ByName))
	}
}

var sorterNames = []string{"text", "value", "value", "text:desc", "value:asc"}

func genCfg(t *rapid.T, scales bool) Cfg {
	c := Cfg{
		Color:    rapid.Bool().Draw(t, "color"),
		Unicode:  rapid.Bool().Draw(t, "unicode"),
		Humanize: rapid.IntRange(0, 3).Draw(t, "humanize") > 0,
		Scale:    "linear",
	}
	if scales {
		c.Scale = rapid.SampledFrom([]string{"linear", "linear", "log10", "log2"}).Draw(t, "scale")
	}
	c.Format = formats[rapid.IntRange(0, len(formats)-1).Draw(t, "format")].expr
	return c
}

// ---------- sample histories --------------------------------------------------

// Sample is one element handed to Aggregator.Sample: A [sep B] [sep Inc].
type Sample struct {
	A, B  pbt.S
	Inc   int64
	NoInc bool // no increment field: counts 1
}

func (s Sample) inc() int64 {
	if s.NoInc {
		return 1
	}
	return s.Inc
}

func (s Sample) str(twoD bool) string {
	out := string(s.A)
	if twoD {
		out += sep + string(s.B)
	}
	if !s.NoInc {
		out += sep + strconv.FormatInt(s.Inc, 10)
	}
	return out
}

var plainKeys = []string{"a", "b", "c", "d", "ab", "B", "0", "10", "9", "k1", "zz", "GET", "404"}

// hostile keys named by the statement: empty, very long, multi-byte,
// escape-containing (plus invalid UTF-8, glyphs the renderers draw with, inner
// blank, newline). Keys with a leading or trailing blank are left out by
// construction: the line parser could not tell them from padding.
var hostileKeys = []string{
	"", "", "é", "✤✥✦", "日本語", "a b", "x\ny", "-1", "█", "|", "a,b", "(x)",
	strings.Repeat("k", 17), "long-" + strings.Repeat("x", 70),
	"\xff\xfe", "\x1b[31mred", "\x1b[0m", "e\x1bsc",
}

func hasESC(s string) bool { return strings.IndexByte(s, 0x1b) >= 0 }

func genKeySet(t *rapid.T, label string, max int) []string {
	n := rapid.SampledFrom([]int{1, 2, 3, 3, 4, 5, 6, 8, 12, max/2 + 1, max}).Draw(t, label+"N")
	if n > max {
		n = max
	}
	seen := map[string]bool{}
	var out []string
	hostilePct := rapid.SampledFrom([]int{0, 10, 25, 60}).Draw(t, label+"Hostile")
	for i := 0; i < n; i++ {
		var k string
		if rapid.IntRange(0, 99).Draw(t, label+"h") < hostilePct {
			k = rapid.SampledFrom(hostileKeys).Draw(t, label+"hk")
		} else if i < len(plainKeys) && rapid.Bool().Draw(t, label+"p") {
			k = plainKeys[i]
		} else {
			k = fmt.Sprintf("%s%02d", label[:1], i)
		}
		if !seen[k] {
			seen[k] = true
			out = append(out, k)
		}
	}
	return out
}

var incProfiles = map[string][]int64{
	"pos":   {1, 1, 1, 2, 3, 5, 10, 100, 1000, 123456},
	"zero":  {0},
	"neg":   {-1, -2, -7, -100},
	"mixed": {1, 2, 5, -1, -3, 0, 10, -10, 7},
	"huge": {1, 1000, 1 << 31, 1<<53 + 1, 1 << 62, math.MaxInt64/50 + 1, math.MaxInt64, math.MinInt64,
		-(1 << 62), 100000000000000000, 999999999999},
	"equal": {4},
	"one":   {1},
}

var profileNames = []string{"pos", "pos", "pos", "zero", "neg", "mixed", "mixed", "huge", "equal", "one"}

// genHistory draws a history over a per-case key universe.
func genHistory(t *rapid.T, twoD bool, maxA, maxB, maxLen int) (samples []Sample, profile string) {
	as := genKeySet(t, "akey", maxA)
	bs := []string{""}
	if twoD {
		bs = genKeySet(t, "bkey", maxB)
	}
	profile = rapid.SampledFrom(profileNames).Draw(t, "profile")
	pool := incProfiles[profile]
	n := rapid.IntRange(0, maxLen).Draw(t, "nsamples")
	if rapid.Bool().Draw(t, "long") {
		n = rapid.SampledFrom([]int{maxLen / 3, maxLen / 2, maxLen * 3 / 4, maxLen}).Draw(t, "nsamplesLong")
	}
	if profile == "equal" {
		// every cell exactly once with the same increment: all values equal
		for _, a := range as {
			for _, b := range bs {
				if len(samples) < maxLen {
					samples = append(samples, Sample{A: pbt.S(a), B: pbt.S(b), Inc: pool[0]})
				}
			}
		}
		return
	}
	for i := 0; i < n; i++ {
		s := Sample{
			A:   pbt.S(as[rapid.IntRange(0, len(as)-1).Draw(t, "a")]),
			B:   pbt.S(bs[rapid.IntRange(0, len(bs)-1).Draw(t, "b")]),
			Inc: pool[rapid.IntRange(0, len(pool)-1).Draw(t, "inc")],
		}
		if (profile == "pos" || profile == "one") && rapid.IntRange(0, 3).Draw(t, "noinc") == 0 {
			s.NoInc = true
		}
		samples = append(samples, s)
	}
	return
}

// genCuts draws the positions after which the state is rendered; the final
// state is always rendered.
func genCuts(t *rapid.T, n int) []int {
	k := rapid.IntRange(0, 4).Draw(t, "ncuts")
	cuts := make([]int, 0, k+1)
	for i := 0; i < k; i++ {
		cuts = append(cuts, rapid.IntRange(0, n).Draw(t, "cut"))
	}
	sort.Ints(cuts)
	cuts = append(cuts, n)
	return cuts
}

func normCuts(cuts []int, n int) []int {
	var out []int
	last := 0
	for _, c := range cuts {
		if c < last {
			c = last
		}
		if c > n {
			c = n
		}
		out = append(out, c)
		last = c
	}
	if len(out) == 0 || out[len(out)-1] != n {
		out = append(out, n)
	}
	return out
}

// ---------- reading rendered lines --------------------------------------------

var sgrRe = regexp.MustCompile("\x1b\\[[0-9;]*m")

// strip removes exactly the SGR colour sequences rare emits.
func strip(s string) string {
	if !hasESC(s) {
		return s
	}
	return sgrRe.ReplaceAllString(s, "")
}

func vis(s string) int { return utf8.RuneCountInString(s) }

func allSpaces(s string) bool { return strings.Trim(s, " ") == "" }

// eighth blocks by their Unicode meaning (U+258F = 1/8 ... U+2589 = 7/8,
// U+2588 = full block).
func blockRank(r rune) int {
	if r >= 0x2588 && r <= 0x258f {
		return int(0x258f-r) + 1
	}
	return 0
}

// barLen measures a plain (non-stacked) bar: cells (runes) and a length in
// eighths of a cell that is a non-decreasing function of the drawn length.
func barLen(bar string, unicode bool) (cells int, eighths int, err error) {
	if bar == "" {
		return 0, 0, nil
	}
	rs := []rune(bar)
	cells = len(rs)
	if !unicode {
		for _, r := range rs {
			if r != '|' {
				return 0, 0, fmt.Errorf("bar %q holds %q, want only '|'", bar, r)
			}
		}
		return cells, 8 * cells, nil
	}
	for i, r := range rs {
		k := blockRank(r)
		if k == 0 {
			return 0, 0, fmt.Errorf("bar %q holds %q, want block elements", bar, r)
		}
		if i < len(rs)-1 && k != 8 {
			return 0, 0, fmt.Errorf("bar %q has a partial block before its end", bar)
		}
		if i == len(rs)-1 {
			eighths = 8*(cells-1) + k
		}
	}
	return cells, eighths, nil
}

// afterLastSpace splits "....  BAR" at the last blank.
func afterLastSpace(s string) (head, tail string) {
	i := strings.LastIndexByte(s, ' ')
	return s[:i+1], s[i+1:]
}

type barObs struct {
	val     int64
	eighths int
	cells   int
	where   string
}

// checkBars: the laws of plain bars drawn in one render with one common
// maximum: never longer than maxCells, non-decreasing in the value, empty for
// values <= 0, and for the linear scale proportional to the value within the
// drawing resolution. maxEver is the largest value this or any earlier render
// showed (including rows whose bar could not be read).
func checkBars(bars []barObs, maxCells int, scale string, unicode bool, maxEver int64) error {
	if len(bars) == 0 {
		return nil
	}
	sorted := append([]barObs(nil), bars...)
	sort.SliceStable(sorted, func(i, j int) bool { return sorted[i].val < sorted[j].val })
	for i, b := range sorted {
		if b.cells > maxCells {
			return fmt.Errorf("%s: bar for value %d is %d cells, maximum width is %d", b.where, b.val, b.cells, maxCells)
		}
		if b.val <= 0 && b.cells != 0 {
			return fmt.Errorf("%s: value %d <= 0 draws a bar of %d cells", b.where, b.val, b.cells)
		}
		if i > 0 && sorted[i-1].eighths > b.eighths {
			p := sorted[i-1]
			return fmt.Errorf("bars do not grow with the value: %s value %d -> %d/8 cells, %s value %d -> %d/8 cells",
				p.where, p.val, p.eighths, b.where, b.val, b.eighths)
		}
	}
	ref := sorted[len(sorted)-1]
	if ref.val <= 0 {
		return nil
	}
	if ref.val >= maxEver {
		// the largest value ever shown
		if scale == "linear" {
			if ref.cells < maxCells-1 {
				return fmt.Errorf("%s: largest value ever shown (%d) draws %d of %d cells on the linear scale", ref.where, ref.val, ref.cells, maxCells)
			}
		} else if ref.val >= 2 && ref.cells == 0 {
			return fmt.Errorf("%s: largest value ever shown (%d) draws no bar on scale %s", ref.where, ref.val, scale)
		}
	}
	if scale != "linear" {
		return nil
	}
	// proportional: len_i / len_ref == val_i / val_ref up to the resolution
	// (1/8 cell with block elements, 1 cell with '|'), plus float rounding.
	tol := 1.0
	if unicode {
		tol = 0.3
	}
	for _, b := range sorted {
		if b.val <= 0 {
			continue
		}
		li, lr := float64(b.eighths)/8, float64(ref.eighths)/8
		vi, vr := float64(b.val), float64(ref.val)
		if d := math.Abs(li*vr - lr*vi); d > tol*(vi+vr)*(1+1e-9) {
			return fmt.Errorf("linear bars not proportional: %s value %d -> %.3f cells, %s value %d -> %.3f cells",
				b.where, b.val, li, ref.where, ref.val, lr)
		}
	}
	return nil
}

// parseCells reads a rendered table line as the expected cell texts separated
// by blanks; it returns the visible offset of every non-empty cell (-1 for
// empty cells).
func parseCells(line string, cells []string) ([]int, error) {
	offs := make([]int, len(cells))
	pos := 0
	first := true
	for j, cell := range cells {
		offs[j] = -1
		if cell == "" {
			continue
		}
		start := pos
		for pos < len(line) && line[pos] == ' ' {
			pos++
		}
		if !first && pos == start {
			return nil, fmt.Errorf("cell %d (%q) is not separated from the previous cell in %q", j, cell, line)
		}
		if !strings.HasPrefix(line[pos:], cell) {
			return nil, fmt.Errorf("cell %d: want %q at byte %d of %q", j, cell, pos, line)
		}
		offs[j] = utf8.RuneCountInString(line[:pos])
		pos += len(cell)
		first = false
	}
	if !allSpaces(line[pos:]) {
		return nil, fmt.Errorf("unexpected text %q after the last cell of %q", line[pos:], line)
	}
	return offs, nil
}

// aligner checks that every column starts at one visible offset.
type aligner struct {
	off   map[int]int
	where map[int]string
}

func newAligner() *aligner { return &aligner{off: map[int]int{}, where: map[int]string{}} }

func (a *aligner) add(where string, offs []int) error {
	for j, o := range offs {
		if o < 0 {
			continue
		}
		if prev, ok := a.off[j]; ok && prev != o {
			return fmt.Errorf("table columns do not line up: column %d starts at offset %d in %s but at %d in %s", j, prev, a.where[j], o, where)
		} else if !ok {
			a.off[j] = o
			a.where[j] = where
		}
	}
	return nil
}

var moreRe = regexp.MustCompile(`\((\d+) more\)`)

// moreNote extracts n of a trailing "(n more)".
func moreNote(s string) (int, bool) {
	m := moreRe.FindAllStringSubmatch(s, -1)
	if len(m) == 0 {
		return 0, false
	}
	n, _ := strconv.Atoi(m[len(m)-1][1])
	return n, true
}

func dump(vt *multiterm.VirtualTerm) string {
	var sb strings.Builder
	for i := 0; i < vt.LineCount() && i < 40; i++ {
		fmt.Fprintf(&sb, "\n  %2d: %s", i, pbt.Trunc(strconv.Quote(vt.Get(i)), 200))
	}
	return sb.String()
}

// ---------- bounded cases: what a watchdog hit means ------------------------------

// caseWatchdog: a case holds <= 60 samples, <= 25 rows x 40 columns and is
// rendered <= 5 times: well under 10 ms of CPU. The driver allows
// caseWatchdog plus 12x as much grace (65 s) before it calls a case
// non-terminating, four orders of magnitude above an honest case.
const caseWatchdog = 5 * time.Second

// heapGuard runs an oracle and watches the heap while it has not returned:
// a layout loop that never advances but keeps writing (the heatmap header
// with an empty column key did) grows the heap without bound. Growth by 1 GiB
// over the start of the case - an honest case allocates well under 10 MiB -
// is reported as non-termination at once, instead of after the driver's
// wall-clock limit when tens of GiB are gone. Independent of machine load.
func heapGuard[C any](f func(C) error) func(C) error {
	return func(c C) error {
		start := time.Now()
		done := make(chan error, 1)
		go func() { done <- pbt.Guard(func() error { return f(c) }) }()
		first := time.NewTimer(250 * time.Millisecond)
		defer first.Stop()
		select {
		case err := <-done:
			return err
		case <-first.C:
		}
		var base, ms runtime.MemStats
		runtime.ReadMemStats(&base)
		tick := time.NewTicker(100 * time.Millisecond)
		defer tick.Stop()
		for {
			select {
			case err := <-done:
				return err
			case <-tick.C:
				runtime.ReadMemStats(&ms)
				if ms.HeapAlloc > base.HeapAlloc+1<<30 {
					return pbt.ErrHang{After: time.Since(start).Round(time.Millisecond)}
				}
			}
		}
	}
}
