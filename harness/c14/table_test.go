package c14

import (
	"fmt"
	"math"
	"regexp"
	"strconv"
	"strings"
	"testing"

	"pgregory.net/rapid"
	"rare/pkg/aggregation"
	"rare/pkg/multiterm"
	"rare/pkg/multiterm/termrenderers"
	"verifharness/pbt"
)

// ---------- shared 2D model (table, heatmap, sparkline) ---------------------------

// grid is the harness' own fold of a history of (column, row, inc) samples.
type grid struct {
	cells map[string]map[string]int64 // row -> column -> value
	cols  map[string]bool
}

func newGrid() *grid { return &grid{cells: map[string]map[string]int64{}, cols: map[string]bool{}} }

func (g *grid) add(s Sample) {
	col, row := string(s.A), string(s.B)
	if g.cells[row] == nil {
		g.cells[row] = map[string]int64{}
	}
	g.cells[row][col] += s.inc()
	g.cols[col] = true
}

func (g *grid) value(row, col string) int64 { return g.cells[row][col] }

func (g *grid) rowSum(row string) (s int64) {
	for _, c := range pbt.SortedKeys(g.cells[row]) {
		s += g.cells[row][c]
	}
	return
}

func (g *grid) colSum(col string) (s int64) {
	for _, r := range pbt.SortedKeys(g.cells) {
		s += g.cells[r][col]
	}
	return
}

func (g *grid) sum() (s int64) {
	for _, c := range pbt.SortedKeys(g.cols) {
		s += g.colSum(c)
	}
	return
}

// minMax over the full rows x columns grid, a cell never sampled counting 0
// ("the min/max value in the set" of docs/usage/aggregators.md); 0,0 when empty.
func (g *grid) minMax() (min, max int64) {
	if len(g.cells) == 0 || len(g.cols) == 0 {
		return 0, 0
	}
	min, max = math.MaxInt64, math.MinInt64
	for _, r := range g.cells {
		for c := range g.cols {
			v := r[c]
			if v < min {
				min = v
			}
			if v > max {
				max = v
			}
		}
	}
	return
}

// agree checks the real aggregator against the fold (rows, columns, cells);
// a difference is the aggregator's fault (C07), not the renderer's, but the
// renderer oracle below would be meaningless without it.
func (g *grid) agree(agg *aggregation.TableAggregator) error {
	if agg.RowCount() != len(g.cells) || agg.ColumnCount() != len(g.cols) {
		return fmt.Errorf("harness: aggregator has %d rows x %d columns, the fold of the history %d x %d (C07 territory)", agg.RowCount(), agg.ColumnCount(), len(g.cells), len(g.cols))
	}
	for _, r := range agg.Rows() {
		m, ok := g.cells[r.Name()]
		if !ok {
			return fmt.Errorf("harness: aggregator has row %q the history does not", r.Name())
		}
		for c := range g.cols {
			if r.Value(c) != m[c] {
				return fmt.Errorf("harness: aggregator cell (%q,%q) = %d, fold of the history = %d (C07 territory)", r.Name(), c, r.Value(c), m[c])
			}
		}
	}
	return nil
}

// ---------- table (cmd/tabulate.go, termrenderers.DataTable) ----------------------

type TableCase struct {
	Cfg
	Samples   []Sample
	Cuts      []int
	NumRows   int // --num
	NumCols   int // --cols
	RowTotals bool
	ColTotals bool
	SortRows  string
	SortCols  string
	Profile   string
	Obs       *pbt.Obs `json:"-"`
}

func checkTable(c TableCase) error {
	c.setGlobals()
	o := c.Obs
	rowSorter, colSorter := buildSorter(c.SortRows), buildSorter(c.SortCols)
	oracleFmt, _ := buildFormatter(c.Format)

	// tabulateFunction
	counter := aggregation.NewTable(sep)
	vt := multiterm.NewVirtualTerm()
	writer := termrenderers.NewDataTable(vt, c.NumCols, c.NumRows)
	writer.ShowRowTotals = c.RowTotals
	writer.ShowColTotals = c.ColTotals
	if c.Format != "" {
		f, err := buildFormatter(c.Format)
		if err != nil {
			return fmt.Errorf("harness: format %q: %v", c.Format, err)
		}
		writer.SetFormatter(f)
	}

	g := newGrid()
	fed := 0
	cuts := normCuts(c.Cuts, len(c.Samples))
	for ri, cut := range cuts {
		for ; fed < cut; fed++ {
			counter.Sample(c.Samples[fed].str(true))
			g.add(c.Samples[fed])
		}
		// the writeOutput callback of RunAggregationLoop
		writer.WriteTable(counter, rowSorter, colSorter)
		writer.WriteFooter(0, "FOOTER-0")
		writer.WriteFooter(1, "FOOTER-1")

		if err := g.agree(counter); err != nil {
			return err
		}
		if err := checkTableRender(vt, counter, g, c, oracleFmt, o); err != nil {
			return fmt.Errorf("render %d (after %d samples): %v%s", ri+1, cut, err, dump(vt))
		}
		o.Add("renders", 1)
	}
	writer.Close()
	return nil
}

func checkTableRender(vt *multiterm.VirtualTerm, counter *aggregation.TableAggregator, g *grid, c TableCase, f func(int64, int64, int64) string, o *pbt.Obs) error {
	// the order of rows and columns is the sorter's business (C13): taken
	// from the aggregator; every number comes from the fold.
	cols := counter.OrderedColumns(buildSorter(c.SortCols))
	if len(cols) > c.NumCols {
		cols = cols[:c.NumCols]
	}
	rows := counter.OrderedRows(buildSorter(c.SortRows))
	nrows := len(rows)
	if nrows > c.NumRows {
		nrows = c.NumRows
	}
	o.Label(len(g.cells) > c.NumRows, "more-rows-than-fit")
	o.Label(len(g.cols) > c.NumCols, "more-cols-than-fit")
	o.Label(nrows >= 3, "rows>=3")
	o.Label(len(cols) >= 2, "cols>=2")
	if c.Format == "{0}/{min}/{max}" && !c.RowTotals && !c.ColTotals {
		// "{1} or {min} -- the min value in the set, {2} or {max} -- the max":
		// whatever the set is, the displayed cells belong to it and one render
		// has one set. So every cell of this render carries the same min/max
		// and lies between them (a min/max left over from an earlier state of
		// the table does not). Totals are not cells of the set: not generated here.
		if err := checkBounds(vt, rows[:nrows], cols, g, o); err != nil {
			return err
		}
	}
	if !valueOnly(c.Format) {
		// which min/max a table hands to the formatter is the set's
		// (documented), but a cell text with them is not needed to decide
		// alignment of the others: beyond the bounds law above these
		// renders are crash-only.
		pbt.Exclude("formatter depending on min/max: table cell texts not compared")
		return nil
	}
	fm := func(v int64) string { labelVal(o, v); return f(v, 0, 0) }

	var lines [][]string
	hdr := make([]string, len(cols)+2)
	for i, n := range cols {
		hdr[i+1] = n
		labelKey(o, n)
	}
	if c.RowTotals {
		hdr[len(cols)+1] = "Total"
	}
	lines = append(lines, hdr)
	for i := 0; i < nrows; i++ {
		name := rows[i].Name()
		labelKey(o, name)
		cells := make([]string, len(cols)+2)
		cells[0] = name
		for j, cn := range cols {
			cells[j+1] = fm(g.value(name, cn))
		}
		if c.RowTotals {
			cells[len(cols)+1] = fm(g.rowSum(name))
		}
		lines = append(lines, cells)
	}
	if c.ColTotals {
		cells := make([]string, len(cols)+2)
		cells[0] = "Total"
		for j, cn := range cols {
			cells[j+1] = fm(g.colSum(cn))
		}
		if c.RowTotals {
			cells[len(cols)+1] = fm(g.sum())
		}
		lines = append(lines, cells)
	}

	al := newAligner()
	for i, cells := range lines {
		esc := false
		for _, s := range cells {
			esc = esc || hasESC(s)
		}
		if esc {
			o.Label(true, "esc-key(crash-only)")
			pbt.Exclude("table line holding a key with ESC: line not parsed")
			continue
		}
		where := fmt.Sprintf("line %d", i)
		offs, err := parseCells(strip(vt.Get(i)), cells)
		if err != nil {
			return fmt.Errorf("%s: %v (expected cells %q)", where, err, cells)
		}
		if err := al.add(where, offs); err != nil {
			return err
		}
		o.Add("lines-checked", 1)
	}
	return nil
}

func genLimit(t *rapid.T, label string, big int) int {
	return rapid.SampledFrom([]int{0, 1, 2, 3, 5, 8, 10, 20, 20, big, big}).Draw(t, label)
}

func genTable(t *rapid.T) TableCase {
	c := TableCase{Obs: pbt.NewObs()}
	c.Cfg = genCfg(t, false)
	c.Samples, c.Profile = genHistory(t, true, 40, 25, 60)
	c.Cuts = genCuts(t, len(c.Samples))
	c.NumRows = genLimit(t, "rows", 30)
	c.NumCols = genLimit(t, "cols", 45)
	x := rapid.IntRange(0, 3).Draw(t, "totals")
	c.RowTotals, c.ColTotals = x&1 != 0, x&2 != 0
	c.SortRows = rapid.SampledFrom(sorterNames).Draw(t, "sortrows")
	c.SortCols = rapid.SampledFrom(sorterNames).Draw(t, "sortcols")
	return c
}

func classify2D(profile string, cfg Cfg, o *pbt.Obs, limit0 bool) (bool, []string) {
	l := pbt.Labels{"profile:" + profile, "scale:" + cfg.Scale}
	l.Add(cfg.Color, "color")
	l.Add(cfg.Unicode, "unicode")
	l.Add(cfg.Format != "", "custom-format")
	l.Add(limit0, "limit-0")
	l = append(l, o.All()...)
	hostile := o.Has("max<=0") || o.Has("negative-value") || o.Has("zero-value") || o.Has("empty-key") || o.Has("long-key") ||
		o.Has("huge-value") || o.Has("multibyte-key") || o.Has("more-rows-than-fit") || o.Has("more-cols-than-fit") || limit0
	nt := o.Has("rows>=3") && o.Has("cols>=2") && o.Get("renders") >= 2 && hostile
	return nt, l
}

func classifyTable(c TableCase) (bool, []string) {
	return classify2D(c.Profile, c.Cfg, c.Obs, c.NumRows == 0 || c.NumCols == 0)
}

var tableSpec = pbt.Spec[TableCase]{
	Property: "C14", Name: "table",
	Rule:   "history of (column,row,inc) samples (profiles pos/zero/neg/mixed/huge/all-equal; keys incl. empty, long, multi-byte, ESC, invalid UTF-8; <=40 columns x <=25 rows) fed to the real TableAggregator and rendered through the transcribed cmd/tabulate.go callback (DataTable.WriteTable + footers) after every cut (1-5 renders of the growing state) x --num/--cols 0..45 x row/column totals x sorters x format x colour. Oracle: no panic/hang; line 0 holds the displayed column keys (+Total), line 1+i the key of row i and formatter(cell) for every displayed column (+ formatter(row sum)), the totals line formatter(column sums) (+ grand total), values from an independent fold; every column starts at one visible offset (rune count after removing the SGR codes) on all lines of the render. Lines with an ESC key and formats reading min/max: crash-only. Non-trivial: >=3 rows and >=2 columns displayed, >=2 renders and a hostile feature (negative/zero/huge value, empty/long/multi-byte key, limit 0, more rows or columns than fit)",
	Budget: pbt.Budget{Quick: 32000, Thorough: 600000},
	Gen:    genTable, Check: heapGuard(checkTable), Watchdog: caseWatchdog, Classify: classifyTable,
}

func TestTable(t *testing.T) { pbt.Run(t, tableSpec) }

var boundsCell = regexp.MustCompile(`(-?\d+)/(-?\d+)/(-?\d+)`)

// checkBounds: table rendered with the formatter {0}/{min}/{max}, no totals.
func checkBounds(vt *multiterm.VirtualTerm, rows []*aggregation.TableRow, cols []string, g *grid, o *pbt.Obs) error {
	if len(rows) == 0 || len(cols) == 0 {
		return nil
	}
	var mn, mx string
	seen := 0
	for i, r := range rows {
		name := r.Name()
		if strings.ContainsAny(name, "/0123456789\x1b") {
			continue // the key itself could look like a cell
		}
		line := strip(vt.Get(i + 1))
		for _, m := range boundsCell.FindAllStringSubmatch(line, -1) {
			v, e1 := strconv.ParseInt(m[1], 10, 64)
			lo, e2 := strconv.ParseInt(m[2], 10, 64)
			hi, e3 := strconv.ParseInt(m[3], 10, 64)
			if e1 != nil || e2 != nil || e3 != nil {
				continue
			}
			if seen == 0 {
				mn, mx = m[2], m[3]
			} else if m[2] != mn || m[3] != mx {
				return fmt.Errorf("cells of one table render carry different min/max: %s/%s and %s/%s (row %q)", mn, mx, m[2], m[3], name)
			}
			seen++
			if v < lo || v > hi {
				return fmt.Errorf("table cell %q of row %q: the value %d lies outside the min/max %d..%d handed to the formatter (\"the min/max value in the set\")", m[0], name, v, lo, hi)
			}
		}
	}
	o.Add("bounds-cells", seen)
	o.Label(seen > 0, "bounds-law-checked")
	return nil
}
