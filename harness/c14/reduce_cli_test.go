package c14

import (
	"bytes"
	"fmt"
	"os"
	"os/exec"
	"path/filepath"
	"strconv"
	"strings"
	"testing"
	"time"

	"pgregory.net/rapid"
	"verifharness/pbt"
)

// ---------- running the real binary ---------------------------------------------------

var cliSeq int

type cliResult struct {
	stdout, stderr string
	exit           int
}

// runRare runs the rare CLI on an input file holding lines. ok=false: the
// binary is not available or could not be started (infrastructure: no
// verdict). A process that does not exit, or whose memory grows past 2 GiB on
// an input of at most 60 short lines, is non-termination.
func runRare(lines []string, args ...string) (res cliResult, ok bool, err error) {
	bin := os.Getenv("VERIF_RARE_BIN")
	if bin == "" {
		pbt.Exclude("VERIF_RARE_BIN not set: CLI layer skipped")
		return res, false, nil
	}
	dir := os.Getenv("VERIF_SCRATCH")
	if dir == "" {
		dir = os.TempDir()
	}
	cliSeq++
	fn := filepath.Join(dir, fmt.Sprintf("c14-cli-%d-%d.txt", os.Getpid(), cliSeq))
	var content bytes.Buffer
	for _, l := range lines {
		content.WriteString(l)
		content.WriteByte('\n')
	}
	if werr := os.WriteFile(fn, content.Bytes(), 0o644); werr != nil {
		return res, false, nil
	}
	defer os.Remove(fn)
	cmd := exec.Command(bin, append(args, fn)...)
	cmd.Env = []string{"HOME=" + dir, "PATH=/usr/bin:/bin", "TERM=dumb"}
	var stdout, stderr bytes.Buffer
	cmd.Stdout, cmd.Stderr = &stdout, &stderr
	if serr := cmd.Start(); serr != nil {
		return res, false, nil
	}
	done := make(chan error, 1)
	go func() { done <- cmd.Wait() }()
	start := time.Now()
	tick := time.NewTicker(50 * time.Millisecond)
	defer tick.Stop()
	var werr error
wait:
	for {
		select {
		case werr = <-done:
			break wait
		case <-tick.C:
			if rss := procRSS(cmd.Process.Pid); rss > 2<<30 {
				cmd.Process.Kill()
				<-done
				return res, true, pbt.ErrHang{After: time.Since(start).Round(time.Millisecond)}
			}
			if time.Since(start) > 120*time.Second {
				cmd.Process.Kill()
				<-done
				return res, true, pbt.ErrHang{After: 120 * time.Second}
			}
		}
	}
	res.stdout, res.stderr = stdout.String(), stderr.String()
	if ee, isExit := werr.(*exec.ExitError); isExit {
		res.exit = ee.ExitCode()
	} else if werr != nil {
		return res, false, nil
	}
	return res, true, nil
}

func procRSS(pid int) int64 {
	raw, err := os.ReadFile(fmt.Sprintf("/proc/%d/statm", pid))
	if err != nil {
		return 0
	}
	f := strings.Fields(string(raw))
	if len(f) < 2 {
		return 0
	}
	pages, _ := strconv.ParseInt(f[1], 10, 64)
	return pages * int64(os.Getpagesize())
}

// crashed: a Go panic exits with status 2 (as a usage error does) and prints
// its goroutine dump on stderr; a signal gives a negative status.
func crashed(r cliResult) bool {
	return r.exit < 0 || strings.Contains(r.stderr, "panic:") || strings.Contains(r.stderr, "goroutine 1 [") || strings.Contains(r.stderr, "fatal error:")
}

const cliMatch = `^([^\t]*)\t([^\t]*)\t(-?\d+)$`

func cliLine(a, b string, n int64) string { return a + "\t" + b + "\t" + strconv.FormatInt(n, 10) }

func cliKeyOK(s string) bool { return !strings.ContainsAny(s, "\n\t\r\x00") }

func globalFlags(c Cfg) []string {
	var out []string
	if c.Color {
		out = append(out, "--color")
	} else {
		out = append(out, "--nocolor")
	}
	if !c.Unicode {
		out = append(out, "--nounicode")
	}
	if !c.Humanize {
		out = append(out, "--noformat")
	}
	return append(out, "--noload")
}

// ---------- reduce table (cmd/reduce.go) through the binary ----------------------------

type RLine struct {
	F1, F2 pbt.S
	Num    int64
}

type ReduceCase struct {
	Color       bool
	Lines       []RLine
	Groups      []string // -g, from groupExprs
	Accums      []string // -a, from accumExprs
	Rows, Cols  int      // --rows / --cols
	RowsFlag    string   // spelling of the row limit: --rows (also when empty), --num, -n
	RowsDefault bool     // row limit not given: 20
	ColsDefault bool     // column limit not given: 10
	Table       bool     // --table
	Sort        string   // --sort
	SortReverse bool
	Obs         *pbt.Obs `json:"-"`
}

var groupExprs = []string{"k={1}", "{2}", "{0}", "both={1}-{2}", "g={2}"}
var accumExprs = []string{"n={sumi {.} 1}", "total={sumi {.} {3}}", "last={3}", "{sumi {.} 1}"}

func rName(e string) string {
	if i := strings.IndexByte(e, '='); i >= 0 {
		return e[:i]
	}
	return e
}

// model of the expressions above on one line
func groupValue(e string, l RLine) string {
	switch e {
	case "k={1}":
		return string(l.F1)
	case "{2}", "g={2}":
		return string(l.F2)
	case "{0}": // the extracted {@}: every capture group, joined by the array separator
		return string(l.F1) + sep + string(l.F2) + sep + strconv.FormatInt(l.Num, 10)
	case "both={1}-{2}":
		return string(l.F1) + "-" + string(l.F2)
	}
	panic("harness: unknown group expression " + e)
}

type rAcc struct {
	n, total, last int64
}

func (a rAcc) cell(e string) string {
	switch e {
	case "n={sumi {.} 1}", "{sumi {.} 1}":
		return strconv.FormatInt(a.n, 10)
	case "total={sumi {.} {3}}":
		return strconv.FormatInt(a.total, 10)
	case "last={3}":
		return strconv.FormatInt(a.last, 10)
	}
	panic("harness: unknown accumulator " + e)
}

func checkReduce(c ReduceCase) error {
	o := c.Obs
	var lines []string
	for _, l := range c.Lines {
		lines = append(lines, cliLine(string(l.F1), string(l.F2), l.Num))
	}
	args := []string{"--noload"}
	if c.Color {
		args = append(args, "--color")
	} else {
		args = append(args, "--nocolor")
	}
	args = append(args, "reduce", "--snapshot", "-m", cliMatch)
	if c.RowsDefault {
		c.Rows = 20 // the defaults of the flag table in cmd/reduce.go
	} else {
		rowsFlag := c.RowsFlag
		if rowsFlag == "" {
			rowsFlag = "--rows"
		}
		args = append(args, rowsFlag, strconv.Itoa(c.Rows))
	}
	if c.ColsDefault {
		c.Cols = 10
	} else {
		args = append(args, "--cols", strconv.Itoa(c.Cols))
	}
	for _, g := range c.Groups {
		args = append(args, "-g", g)
	}
	for _, a := range c.Accums {
		args = append(args, "-a", a)
	}
	if c.Table {
		args = append(args, "--table")
	}
	if c.Sort != "" {
		args = append(args, "--sort", c.Sort)
	}
	if c.SortReverse {
		args = append(args, "--sort-reverse")
	}
	res, ok, err := runRare(lines, args...)
	if err != nil {
		return fmt.Errorf("rare %q: %w", args, err)
	}
	if !ok {
		return nil
	}
	o.Label(true, "ran")
	if crashed(res) {
		return fmt.Errorf("rare %q crashed (exit %d) on %d lines:\n%s", args, res.exit, len(lines), pbt.Trunc(res.stderr, 1500))
	}
	wantExit := 0
	if len(lines) == 0 {
		wantExit = 1 // "no data"
	}
	if res.exit != wantExit {
		return fmt.Errorf("rare %q: exit status %d, want %d; stderr %s", args, res.exit, wantExit, pbt.Trunc(res.stderr, 400))
	}

	if len(c.Lines) == 0 {
		return nil // nothing aggregated: crash layer only
	}

	// the model: one row of accumulators per group key
	G := len(c.Groups)
	model := map[string]*rAcc{}
	var order []string
	for _, l := range c.Lines {
		parts := make([]string, G)
		for i, g := range c.Groups {
			parts[i] = groupValue(g, l)
		}
		k := strings.Join(parts, sep)
		a := model[k]
		if a == nil {
			a = &rAcc{}
			model[k] = a
			order = append(order, k)
		}
		a.n++
		a.total += l.Num
		a.last = l.Num
	}
	out := strings.Split(strings.TrimSuffix(res.stdout, "\n"), "\n")
	for i := range out {
		out[i] = strip(out[i])
	}
	where := func(i int) string { return fmt.Sprintf("stdout line %d %q", i, pbt.Trunc(out[i], 120)) }
	dumpOut := "\nstdout:\n" + pbt.Trunc(res.stdout, 1500)

	if G == 0 && !c.Table {
		// simple output: "name: value" per accumulator
		a := model[""]
		if a == nil {
			a = &rAcc{}
		}
		for i, e := range c.Accums {
			if i >= len(out) {
				return fmt.Errorf("accumulator %q is not shown%s", e, dumpOut)
			}
			name := rName(e)
			val := a.cell(e)
			rest := strings.TrimPrefix(out[i], name)
			if len(rest) == len(out[i]) && name != "" || strings.TrimLeft(rest, " ") != ": "+val {
				return fmt.Errorf("%s: want %q: %q%s", where(i), name, val, dumpOut)
			}
		}
		o.Label(true, "simple-output")
		return nil
	}

	// table output: header + one line per group, limited to --rows lines and
	// --cols columns; then the two footer lines.
	ncol := G + len(c.Accums)
	cut := func(cells []string) []string {
		if len(cells) > c.Cols {
			return cells[:c.Cols]
		}
		return cells
	}
	var expect [][]string
	for _, k := range order {
		cells := make([]string, ncol)
		if k != "" {
			for i, p := range strings.Split(k, sep) {
				if i < G {
					cells[i] = p
				}
			}
		}
		for i, e := range c.Accums {
			cells[G+i] = model[k].cell(e)
		}
		expect = append(expect, cut(cells))
	}
	shown := 0
	if c.Rows >= 1 {
		shown = len(order)
		if shown > c.Rows-1 {
			shown = c.Rows - 1
		}
	}
	o.Label(len(order) > shown, "more-rows-than-fit")
	o.Label(ncol > c.Cols, "more-cols-than-fit")
	o.Label(shown >= 3, "rows>=3")
	o.Label(G >= 1, "grouped")
	tableLines := 0
	if c.Rows >= 1 {
		tableLines = 1 + shown
	}
	if len(out) != tableLines+2 || !strings.HasPrefix(out[tableLines], "Matched: ") {
		return fmt.Errorf("stdout has %d lines, want %d table lines (header + %d of %d groups, --rows %d) followed by the two summary lines%s", len(out), tableLines, shown, len(order), c.Rows, dumpOut)
	}
	if tableLines == 0 {
		return nil
	}
	al := newAligner()
	hdr := make([]string, 0, ncol)
	for _, g := range c.Groups {
		hdr = append(hdr, rName(g))
	}
	for _, a := range c.Accums {
		hdr = append(hdr, rName(a))
	}
	hdr = cut(hdr)
	offs, err := parseCells(out[0], hdr)
	if err != nil {
		return fmt.Errorf("header %s: %v (expected cells %q)%s", where(0), err, hdr, dumpOut)
	}
	if err := al.add("header line", offs); err != nil {
		return fmt.Errorf("%v%s", err, dumpOut)
	}
	used := make([]bool, len(expect))
	for i := 1; i < tableLines; i++ {
		found := false
		for j, cells := range expect {
			if used[j] {
				continue
			}
			esc := false
			for _, s := range cells {
				esc = esc || hasESC(s)
			}
			if esc {
				continue
			}
			offs, err := parseCells(out[i], cells)
			if err != nil {
				continue
			}
			used[j], found = true, true
			if err := al.add(where(i), offs); err != nil {
				return fmt.Errorf("%v%s", err, dumpOut)
			}
			break
		}
		if !found {
			escLeft := false
			for j, cells := range expect {
				for _, s := range cells {
					escLeft = escLeft || (!used[j] && hasESC(s))
				}
			}
			if escLeft {
				pbt.Exclude("reduce row whose key holds ESC: line not parsed")
				continue
			}
			return fmt.Errorf("%s is not the row of any group not yet shown: displayed values differ from the accumulated ones (groups x accumulators expected: %q)%s", where(i), expect, dumpOut)
		}
	}
	o.Label(true, "table-checked")
	return nil
}

func genReduce(t *rapid.T) ReduceCase {
	c := ReduceCase{Obs: pbt.NewObs()}
	c.Color = rapid.Bool().Draw(t, "color")
	k1 := []string{"a", "b", "c", "GET", "404", "", "é", "日本語", "a b", "long-" + strings.Repeat("x", 30), "\x1b[31mred", "\xff\xfe", "-1", "k1", "k2", "k3", "k4"}
	k2 := []string{"x", "y", "", "z z", "✤✥✦", "10", "9"}
	n := rapid.IntRange(0, 40).Draw(t, "nlines")
	nums := []int64{0, 1, 1, 2, 5, 10, -1, -7, 100, 123456, 999999999999, -999999999999}
	for i := 0; i < n; i++ {
		c.Lines = append(c.Lines, RLine{
			F1:  pbt.S(rapid.SampledFrom(k1).Draw(t, "f1")),
			F2:  pbt.S(rapid.SampledFrom(k2).Draw(t, "f2")),
			Num: rapid.SampledFrom(nums).Draw(t, "num"),
		})
	}
	ng := rapid.SampledFrom([]int{0, 1, 1, 1, 2, 2, 3}).Draw(t, "ngroups")
	seen := map[string]bool{}
	for len(c.Groups) < ng {
		g := rapid.SampledFrom(groupExprs).Draw(t, "group")
		if !seen[rName(g)] { // a duplicate group name is a usage error
			seen[rName(g)] = true
			c.Groups = append(c.Groups, g)
		}
	}
	na := rapid.IntRange(1, 3).Draw(t, "naccums")
	for len(c.Accums) < na {
		a := rapid.SampledFrom(accumExprs).Draw(t, "accum")
		if !seen[rName(a)] {
			seen[rName(a)] = true
			c.Accums = append(c.Accums, a)
		}
	}
	c.Rows = rapid.SampledFrom([]int{0, 1, 2, 3, 5, 20, 20, 20, 50}).Draw(t, "rows")
	c.Cols = rapid.SampledFrom([]int{0, 1, 2, 3, 10, 10, 10}).Draw(t, "cols")
	c.RowsFlag = rapid.SampledFrom([]string{"--rows", "--rows", "--num", "-n"}).Draw(t, "rowsflag")
	c.RowsDefault = rapid.IntRange(0, 5).Draw(t, "rowsdefault") == 0
	c.ColsDefault = rapid.IntRange(0, 5).Draw(t, "colsdefault") == 0
	c.Table = rapid.IntRange(0, 3).Draw(t, "table") == 0
	// --sort by an accumulator every case has: its expression text or name
	if rapid.IntRange(0, 2).Draw(t, "sorted") == 0 {
		c.Sort = "{" + rName(c.Accums[0]) + "}"
		if strings.ContainsAny(rName(c.Accums[0]), "{} ") {
			c.Sort = "{0}"
		}
	}
	c.SortReverse = rapid.Bool().Draw(t, "rev")
	return c
}

func classifyReduce(c ReduceCase) (bool, []string) {
	o := c.Obs
	l := pbt.Labels{fmt.Sprintf("groups:%d", len(c.Groups))}
	l.Add(c.Color, "color")
	l.Add(c.Table, "--table")
	l.Add((!c.RowsDefault && c.Rows == 0) || (!c.ColsDefault && c.Cols == 0), "limit-0")
	l.Add(c.RowsDefault || c.ColsDefault, "default-limit")
	l.Add(!c.RowsDefault && c.RowsFlag != "--rows" && c.RowsFlag != "", "--num/-n")
	whole := false
	for _, g := range c.Groups {
		whole = whole || g == "{0}"
	}
	l.Add(whole, "group-holds-array-separator")
	l = append(l, o.All()...)
	return o.Has("ran") && o.Has("rows>=3") && o.Has("table-checked"), l
}

var reduceSpec = pbt.Spec[ReduceCase]{
	Property: "C14", Name: "reduce-table-cli",
	Rule:   "the real binary: `rare reduce --snapshot -m <3 tab-separated fields> -g ... -a ... [--rows|--num|-n n] [--cols m] [--table] [--sort e] [--sort-reverse]` on 0..40 generated lines (keys incl. empty, inner blank, multi-byte, long, ESC, invalid UTF-8; group expressions incl. {0}, whose value holds the array separator, so a group key has more parts than group columns; 0..3 groups x 1..3 accumulators; limits 0..50). Oracle: exits (no hang, RSS < 2 GiB), no panic, exit status 0 (1 without input); stdout = header + min(groups, rows-1) table lines + 2 summary lines; every table line is the row of a distinct group with the accumulators of an independent model (count, sum, last), cut to --cols columns; columns start at one visible offset on all lines; without groups and --table: `name: value` lines. Row order and which rows fall under the limit are the sorter's (C13). Non-trivial: >=3 group rows displayed and checked",
	Budget: pbt.Budget{Quick: 1600, Thorough: 32000},
	Gen:    genReduce, Check: checkReduce, Classify: classifyReduce, Watchdog: 150 * time.Second,
}

func TestReduceTableCLI(t *testing.T) { pbt.Run(t, reduceSpec) }
