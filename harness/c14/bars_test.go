package c14

import (
	"fmt"
	"math"
	"math/big"
	"regexp"
	"sort"
	"strings"
	"testing"

	"pgregory.net/rapid"
	"rare/pkg/aggregation"
	"rare/pkg/aggregation/sorting"
	"rare/pkg/color"
	"rare/pkg/multiterm"
	"rare/pkg/multiterm/termrenderers"
	"verifharness/pbt"
)

// ---------- bargraph, grouped and stacked (cmd/bargraph.go) ------------------------

type BarsCase struct {
	Cfg
	Stacked  bool
	ScaleSet bool // --scale given (rejected with --stacked: never generated together)
	Samples  []Sample
	Cuts     []int
	Sort     string
	Profile  string
	Obs      *pbt.Obs `json:"-"`
}

const barSize = 50 // termrenderers.NewBarGraph: BarSize

var stackGlyphs = "0123456789ABCDEF" // the no-colour key of a stacked part: its index, hexadecimal

func checkBarsCase(c BarsCase) error {
	c.setGlobals()
	o := c.Obs
	if c.Stacked && c.ScaleSet {
		return nil // `rare bars -s --scale x` is a usage error
	}
	scale := "linear"
	if c.ScaleSet {
		scale = c.Scale
	}
	scaler, err := buildScaler(scale)
	if err != nil {
		return fmt.Errorf("harness: %v", err)
	}
	formatter, err := buildFormatter(c.Format)
	if err != nil {
		return fmt.Errorf("harness: format %q: %v", c.Format, err)
	}
	oracleFmt, _ := buildFormatter(c.Format)
	sorter := buildSorter(c.Sort)

	// bargraphFunction
	vt := multiterm.NewVirtualTerm()
	counter := aggregation.NewSubKeyCounter()
	writer := termrenderers.NewBarGraph(vt)
	writer.Stacked = c.Stacked
	if c.ScaleSet {
		writer.Scaler = scaler
	}
	writer.Formatter = formatter

	model := map[string]map[string]int64{}
	subSet := map[string]bool{}
	var maxEver int64 // the renderer's reference maximum starts at 0
	fed := 0
	cuts := normCuts(c.Cuts, len(c.Samples))
	for ri, cut := range cuts {
		for ; fed < cut; fed++ {
			s := c.Samples[fed]
			counter.Sample(s.str(true))
			if model[string(s.A)] == nil {
				model[string(s.A)] = map[string]int64{}
			}
			model[string(s.A)][string(s.B)] += s.inc()
			subSet[string(s.B)] = true
		}
		// the writeOutput callback of RunAggregationLoop
		line := 0
		writer.SetKeys(counter.SubKeys()...)
		for _, row := range counter.ItemsSorted(sorter) {
			writer.WriteBar(line, row.Name, row.Item.Items()...)
			line++
		}
		writer.WriteFooter(0, "FOOTER-0")
		writer.WriteFooter(1, "FOOTER-1")

		// what was asked to be shown, with values from the harness' own fold
		rows, subs, err := barsShown(counter, model, subSet, sorter)
		if err != nil {
			return err
		}
		var rerr error
		if c.Stacked {
			rerr = checkStackedRender(vt, rows, subs, c, oracleFmt, &maxEver, o)
		} else {
			rerr = checkGroupedRender(vt, rows, subs, c, scale, oracleFmt, &maxEver, o)
		}
		if rerr != nil {
			return fmt.Errorf("render %d (after %d samples): %v%s", ri+1, cut, rerr, dump(vt))
		}
		o.Add("renders", 1)
		o.Label(len(rows) >= 3, "rows>=3")
		o.Label(len(subs) >= 2, "subkeys>=2")
		o.Label(len(subs) > 12, "subkeys>palette")
	}
	writer.Close()
	return nil
}

// barsShown: the rows the bargraph loop is asked to show (order: the real
// sorter's) with the values of the harness' own fold, and the sorted sub keys.
func barsShown(counter *aggregation.SubKeyCounter, model map[string]map[string]int64, subSet map[string]bool, sorter sorting.NameValueSorter) ([]barRow, []string, error) {
	subs := pbt.SortedKeys(subSet)
	if got := counter.SubKeys(); strings.Join(got, "\x01") != strings.Join(subs, "\x01") {
		return nil, nil, fmt.Errorf("harness: sub keys of the aggregator %q differ from the sorted sub keys of the history %q (C07 territory)", got, subs)
	}
	var rows []barRow
	for _, it := range counter.ItemsSorted(sorter) {
		m, ok := model[it.Name]
		if !ok {
			return nil, nil, fmt.Errorf("harness: aggregator has key %q the history does not", it.Name)
		}
		r := barRow{key: it.Name}
		for j, sk := range subs {
			r.vals = append(r.vals, m[sk])
			if it.Item.Items()[j] != m[sk] {
				return nil, nil, fmt.Errorf("harness: aggregator disagrees with the fold of the history for %q/%q: %d vs %d (C07 territory)", it.Name, sk, it.Item.Items()[j], m[sk])
			}
		}
		rows = append(rows, r)
	}
	if len(rows) != len(model) {
		return nil, nil, fmt.Errorf("harness: aggregator lists %d keys, history has %d", len(rows), len(model))
	}
	return rows, subs, nil
}

type barRow struct {
	key  string
	vals []int64
}

func barPrefixLines(subs []string) int {
	if len(subs) > 1 || (len(subs) == 1 && subs[0] != "") {
		return 1
	}
	return 0
}

func labelVal(o *pbt.Obs, v int64) {
	o.Label(v < 0, "negative-value")
	o.Label(v == 0, "zero-value")
	o.Label(v >= 1<<53 || v <= -(1<<53), "huge-value")
}

func labelKey(o *pbt.Obs, k string) {
	o.Label(k == "", "empty-key")
	o.Label(len(k) != vis(k), "multibyte-key")
	o.Label(vis(k) > 16, "long-key")
}

// splitNumber cuts the displayed number off the end of a bar line: the bar
// and the number are separated by sepw blanks.
func splitNumber(rest string, sepw int, want string, known bool) (head, num string, err error) {
	sp := strings.Repeat(" ", sepw)
	if known {
		if !strings.HasSuffix(rest, sp+want) {
			return "", "", fmt.Errorf("displayed number: line ends in %q, want %q", pbt.Trunc(tail(rest, len(want)+8), 80), sp+want)
		}
		return rest[:len(rest)-len(want)-sepw], want, nil
	}
	// formats whose text depends on min/max never print a blank
	i := strings.LastIndexByte(rest, ' ')
	if i < sepw-1 || rest[i+1-sepw:i+1] != sp {
		return "", "", fmt.Errorf("no %d-blank separator before the number in %q", sepw, pbt.Trunc(rest, 120))
	}
	return rest[:i+1-sepw], rest[i+1:], nil
}

func tail(s string, n int) string {
	if len(s) <= n {
		return s
	}
	return s[len(s)-n:]
}

func checkGroupedRender(vt *multiterm.VirtualTerm, rows []barRow, subs []string, c BarsCase, scale string, f func(int64, int64, int64) string, maxEver *int64, o *pbt.Obs) error {
	prefix := barPrefixLines(subs)
	known := valueOnly(c.Format)
	if !known {
		pbt.Exclude("formatter depending on min/max: displayed number not compared")
	}
	var bars []barObs
	maxNow := int64(math.MinInt64)
	for i, r := range rows {
		labelKey(o, r.key)
		for j, v := range r.vals {
			labelVal(o, v)
			if v > maxNow {
				maxNow = v
			}
			ln := prefix + i*len(subs) + j
			if hasESC(r.key) && j == 0 {
				o.Label(true, "esc-key(crash-only)")
				pbt.Exclude("bar line whose key holds ESC: line not parsed")
				continue
			}
			line := strip(vt.Get(ln))
			where := fmt.Sprintf("line %d (key %q, sub key %q)", ln, pbt.Trunc(r.key, 30), pbt.Trunc(subs[j], 30))
			rest := line
			if j == 0 {
				if !strings.HasPrefix(line, r.key) {
					return fmt.Errorf("%s: shows %q, want the row of key %q", where, pbt.Trunc(line, 120), r.key)
				}
				rest = line[len(r.key):]
			}
			head, _, err := splitNumber(rest, 1, f(v, 0, 0), known)
			if err != nil {
				return fmt.Errorf("%s: %v (value %d)", where, err, v)
			}
			bar := strings.TrimLeft(head, " ")
			if len(head)-len(bar) < 2 {
				return fmt.Errorf("%s: key column not separated from the bar in %q", where, pbt.Trunc(line, 120))
			}
			cells, eighths, err := barLen(bar, c.Unicode)
			if err != nil {
				return fmt.Errorf("%s: %v", where, err)
			}
			bars = append(bars, barObs{v, eighths, cells, where})
		}
	}
	if maxNow > *maxEver {
		*maxEver = maxNow
	}
	o.Label(len(rows) > 0 && maxNow <= 0, "max<=0")
	if len(bars) > 0 {
		o.Label(true, "bars-checked")
		return checkBars(bars, barSize, scale, c.Unicode, *maxEver)
	}
	return nil
}

var (
	stackPartRe = regexp.MustCompile("\x1b\\[([0-9;]*)m([^\x1b]*)\x1b\\[0m")
)

type partObs struct {
	val   int64
	cells int
	where string
}

// wrapSum is the int64 sum the aggregator keeps; ok=false when it wrapped.
func wrapSum(vals []int64) (sum int64, ok bool) {
	b := new(big.Int)
	for _, v := range vals {
		sum += v
		b.Add(b, big.NewInt(v))
	}
	return sum, b.IsInt64()
}

func checkStackedRender(vt *multiterm.VirtualTerm, rows []barRow, subs []string, c BarsCase, f func(int64, int64, int64) string, maxEver *int64, o *pbt.Obs) error {
	prefix := barPrefixLines(subs)
	known := valueOnly(c.Format)
	if !known {
		pbt.Exclude("formatter depending on min/max: displayed number not compared")
	}
	glyph := "|"
	if c.Unicode {
		glyph = "█"
	}
	var parts []partObs // parts of rows without negative part and without int64 overflow
	type rowObs struct {
		total int64
		cells int
		npos  int
		where string
	}
	var clean []rowObs
	maxNow := int64(math.MinInt64)
	for i, r := range rows {
		labelKey(o, r.key)
		total, exact := wrapSum(r.vals)
		if total > maxNow {
			maxNow = total
		}
		neg := false
		for _, v := range r.vals {
			labelVal(o, v)
			neg = neg || v < 0
		}
		o.Label(!exact, "row-total-overflows-int64")
		ln := prefix + i
		if hasESC(r.key) {
			o.Label(true, "esc-key(crash-only)")
			pbt.Exclude("bar line whose key holds ESC: line not parsed")
			continue
		}
		raw := vt.Get(ln)
		line := strip(raw)
		where := fmt.Sprintf("line %d (key %q)", ln, pbt.Trunc(r.key, 30))
		if !strings.HasPrefix(line, r.key) {
			return fmt.Errorf("%s: shows %q, want the row of key %q", where, pbt.Trunc(line, 120), r.key)
		}
		rest := line[len(r.key):]
		head, _, err := splitNumber(rest, 2, f(total, 0, 0), known)
		if err != nil {
			return fmt.Errorf("%s: %v (total %d of parts %v)", where, err, total, r.vals)
		}
		bar := strings.TrimLeft(head, " ")
		if len(head)-len(bar) < 2 {
			return fmt.Errorf("%s: key column not separated from the bar in %q", where, pbt.Trunc(line, 120))
		}
		// the parts, in sub key order
		lens := make([]int, len(r.vals))
		perPart := true
		if c.Color {
			// every part is wrapped in its group colour, also when empty;
			// the first wrapped run of the line is the key.
			segs := stackPartRe.FindAllStringSubmatch(raw, -1)
			if len(segs) != len(r.vals)+1 {
				return fmt.Errorf("%s: %d coloured runs after the key, want one per sub key (%d) in %q", where, len(segs)-1, len(r.vals), pbt.Trunc(raw, 200))
			}
			sum := 0
			for j, sg := range segs[1:] {
				if want := string(color.GroupColors[j%len(color.GroupColors)]); "\x1b["+sg[1]+"m" != want {
					return fmt.Errorf("%s: part %d is coloured %q, want group colour %q", where, j, sg[1], want)
				}
				if strings.Trim(sg[2], glyph) != "" {
					return fmt.Errorf("%s: part %d holds %q, want only %q", where, j, sg[2], glyph)
				}
				lens[j] = vis(sg[2])
				sum += lens[j]
			}
			if sum != vis(bar) {
				return fmt.Errorf("%s: coloured parts hold %d cells, the bar %q holds %d", where, sum, bar, vis(bar))
			}
		} else {
			// part j is drawn with the j-th hexadecimal digit (mod 16)
			pos := 0
			for j := range r.vals {
				g := stackGlyphs[j%16]
				for pos < len(bar) && bar[pos] == g {
					lens[j]++
					pos++
				}
			}
			if pos != len(bar) {
				return fmt.Errorf("%s: stacked bar %q is not a sequence of runs of the part keys 0..F in order (%d parts)", where, pbt.Trunc(bar, 120), len(r.vals))
			}
			perPart = len(r.vals) <= 16 // beyond, two parts share a digit
		}
		cells := vis(bar)
		if neg || !exact {
			// mixed-sign rows (and totals that left int64) are outside the
			// statement's "bars never exceed their maximum width": the
			// reference maximum is a total, a part may exceed it.
			o.Label(neg, "row-with-negative-part(crash-only)")
			pbt.Exclude("stacked row with a negative part or an overflowing total: lengths not asserted")
			continue
		}
		if cells > barSize {
			return fmt.Errorf("%s: stacked bar of parts %v is %d cells, maximum width is %d", where, r.vals, cells, barSize)
		}
		ro := rowObs{total: total, cells: cells, where: where}
		for j, v := range r.vals {
			if v > 0 {
				ro.npos++
			}
			if perPart {
				parts = append(parts, partObs{v, lens[j], fmt.Sprintf("%s part %d", where, j)})
			}
		}
		clean = append(clean, ro)
	}
	if maxNow > *maxEver {
		*maxEver = maxNow
	}
	o.Label(len(rows) > 0 && maxNow <= 0, "max<=0")
	if len(clean) == 0 {
		return nil
	}
	o.Label(true, "bars-checked")
	// parts grow with their value (one common reference within a render)
	sort.SliceStable(parts, func(a, b int) bool { return parts[a].val < parts[b].val })
	for k, p := range parts {
		if p.val <= 0 && p.cells != 0 {
			return fmt.Errorf("%s: value %d <= 0 draws %d cells", p.where, p.val, p.cells)
		}
		if k > 0 && parts[k-1].cells > p.cells {
			q := parts[k-1]
			return fmt.Errorf("stacked parts do not grow with the value: %s value %d -> %d cells, %s value %d -> %d cells", q.where, q.val, q.cells, p.where, p.val, p.cells)
		}
	}
	// proportional to the value (each part is drawn in whole cells: +-1 cell)
	if len(parts) > 0 {
		ref := parts[len(parts)-1]
		for _, p := range parts {
			if p.val <= 0 || ref.val <= 0 {
				continue
			}
			li, lr, vi, vr := float64(p.cells), float64(ref.cells), float64(p.val), float64(ref.val)
			if d := math.Abs(li*vr - lr*vi); d > (vi+vr)*(1+1e-9) {
				return fmt.Errorf("stacked parts not proportional: %s value %d -> %d cells, %s value %d -> %d cells", p.where, p.val, p.cells, ref.where, ref.val, ref.cells)
			}
		}
	}
	// rows: a larger total never draws a shorter bar by more than the
	// rounding of its parts; the largest total ever shown fills the width.
	sort.SliceStable(clean, func(a, b int) bool { return clean[a].total < clean[b].total })
	for k := 1; k < len(clean); k++ {
		p, q := clean[k-1], clean[k]
		if q.cells+q.npos < p.cells {
			return fmt.Errorf("stacked bars do not grow with the total: %s total %d -> %d cells, %s total %d (%d positive parts) -> %d cells", p.where, p.total, p.cells, q.where, q.total, q.npos, q.cells)
		}
	}
	top := clean[len(clean)-1]
	if top.total > 0 && top.total >= *maxEver && top.cells < barSize-top.npos {
		return fmt.Errorf("%s: the largest total ever shown (%d, %d positive parts) draws %d of %d cells", top.where, top.total, top.npos, top.cells, barSize)
	}
	return nil
}

func genBars(stacked bool) func(t *rapid.T) BarsCase {
	return func(t *rapid.T) BarsCase {
		c := BarsCase{Obs: pbt.NewObs(), Stacked: stacked}
		c.Cfg = genCfg(t, !stacked)
		c.ScaleSet = !stacked && rapid.IntRange(0, 3).Draw(t, "scaleset") > 0
		if !c.ScaleSet {
			c.Scale = "linear"
		}
		maxSub := rapid.SampledFrom([]int{1, 3, 6, 14, 20, 40}).Draw(t, "maxsub")
		c.Samples, c.Profile = genHistory(t, true, 25, maxSub, 60)
		c.Cuts = genCuts(t, len(c.Samples))
		c.Sort = rapid.SampledFrom(sorterNames).Draw(t, "sort")
		return c
	}
}

func classifyBars(c BarsCase) (bool, []string) {
	o := c.Obs
	l := pbt.Labels{"profile:" + c.Profile, "scale:" + c.Scale}
	l.Add(c.Color, "color")
	l.Add(c.Unicode, "unicode")
	l.Add(c.Format != "", "custom-format")
	l = append(l, o.All()...)
	hostile := o.Has("max<=0") || o.Has("negative-value") || o.Has("zero-value") || o.Has("empty-key") || o.Has("long-key") ||
		o.Has("huge-value") || o.Has("multibyte-key") || o.Has("subkeys>palette")
	nt := o.Has("rows>=3") && o.Has("subkeys>=2") && o.Get("renders") >= 2 && hostile
	return nt, l
}

const barsRuleCommon = "history of (key,sub key,inc) samples (profiles pos/zero/neg/mixed/huge/all-equal; keys and sub keys incl. empty, long, multi-byte, ESC, invalid UTF-8; 1..40 sub keys) fed to the real SubKeyCounter and rendered through the transcribed cmd/bargraph.go loop (SetKeys + WriteBar per sorted row + footers) after every cut (1-5 renders of the growing state; the aggregator keeps mutating the slices it handed out) x sort x format x colour x unicode. Values come from an independent fold of the history. Non-trivial: >=3 rows, >=2 sub keys, >=2 renders and a hostile feature (max<=0, negative/zero/huge value, empty/long/multi-byte key, more sub keys than colours)"

var barsGroupedSpec = pbt.Spec[BarsCase]{
	Property: "C14", Name: "bargraph-grouped",
	Rule:   barsRuleCommon + ". Grouped, x scale linear/log2/log10: line of (row i, sub key j) shows the key (j=0), a bar and formatter(value); bars <= 50 cells, non-decreasing in the value over the whole render, empty for values <= 0, proportional on the linear scale, full for the largest value ever shown",
	Budget: pbt.Budget{Quick: 32000, Thorough: 600000},
	Gen:    genBars(false), Check: heapGuard(checkBarsCase), Watchdog: caseWatchdog, Classify: classifyBars,
}

var barsStackedSpec = pbt.Spec[BarsCase]{
	Property: "C14", Name: "bargraph-stacked",
	Rule:   barsRuleCommon + ". Stacked (linear only, as the command enforces): line i shows the key, one run per sub key (group colour, or hex digit without colour) and formatter(row total); for rows without negative part and without int64 overflow: bar <= 50 cells, parts non-decreasing in their value over the whole render, empty for values <= 0, proportional within one cell, row bars grow with the total (up to one cell per part), the largest total ever shown fills the width (up to one cell per part). Rows with a negative part: crash-only",
	Budget: pbt.Budget{Quick: 32000, Thorough: 600000},
	Gen:    genBars(true), Check: heapGuard(checkBarsCase), Watchdog: caseWatchdog, Classify: classifyBars,
}

func TestBargraphGrouped(t *testing.T) { pbt.Run(t, barsGroupedSpec) }
func TestBargraphStacked(t *testing.T) { pbt.Run(t, barsStackedSpec) }
