package c14

import (
	"fmt"
	"math"
	"strconv"
	"strings"
	"testing"

	"pgregory.net/rapid"
	"rare/pkg/aggregation"
	"rare/pkg/aggregation/sorting"
	"rare/pkg/multiterm"
	"rare/pkg/multiterm/termrenderers"
	"verifharness/pbt"
)

// ---------- histogram (cmd/histo.go) -------------------------------------------

type HistoCase struct {
	Cfg
	Samples []Sample
	Cuts    []int
	N       int   // --num
	AtLeast int64 // --atleast
	Sort    string
	Bars    bool // --bars
	Pct     bool // --percentage
	All     bool // --all: a second, full histogram on a fresh writer
	Profile string
	Obs     *pbt.Obs `json:"-"`
}

// writeHistoOutput is cmd/histo.go writeHistoOutput, verbatim.
func writeHistoOutput(writer *termrenderers.HistoWriter, counter *aggregation.MatchCounter, count int, sorter sorting.NameValueSorter, atLeast int64) {
	items := counter.ItemsSortedBy(count, sorter)
	line := 0
	writer.UpdateTotal(counter.Total())
	for _, match := range items {
		count := match.Item.Count()
		if count >= atLeast {
			writer.WriteForLine(line, match.Name, count)
			line++
		}
	}
}

type kv struct {
	key string
	val int64
}

func checkHisto(c HistoCase) error {
	c.setGlobals()
	o := c.Obs
	scaler, err := buildScaler(c.Scale)
	if err != nil {
		return fmt.Errorf("harness: %v", err)
	}
	formatter, err := buildFormatter(c.Format)
	if err != nil {
		return fmt.Errorf("harness: format %q: %v", c.Format, err)
	}
	oracleFmt, _ := buildFormatter(c.Format)
	sorter := buildSorter(c.Sort)

	// histoFunction
	vt := multiterm.NewVirtualTerm()
	counter := aggregation.NewCounter()
	writer := termrenderers.NewHistogram(vt, c.N)
	writer.ShowBar = c.Bars
	writer.ShowPercentage = c.Pct
	writer.Scaler = scaler
	writer.Formatter = formatter

	model := map[string]int64{}
	var total int64
	var histMax int64 = math.MinInt64
	fed := 0
	cuts := normCuts(c.Cuts, len(c.Samples))
	for ri, cut := range cuts {
		for ; fed < cut; fed++ {
			s := c.Samples[fed]
			counter.Sample(s.str(false))
			model[string(s.A)] += s.inc()
			total += s.inc()
		}
		// the writeOutput callback of RunAggregationLoop
		writeHistoOutput(writer, counter, c.N, sorter, c.AtLeast)
		writer.WriteFooter(0, "FOOTER-0")
		writer.WriteFooter(1, "FOOTER-1")

		shown, err := histoShown(counter, model, c.N, sorter, c.AtLeast)
		if err != nil {
			return err
		}
		if err := checkHistoRender(vt, shown, total, c, oracleFmt, &histMax, o); err != nil {
			return fmt.Errorf("render %d (after %d samples): %v%s", ri+1, cut, err, dump(vt))
		}
		if vt.Get(c.N) != "FOOTER-0" || vt.Get(c.N+1) != "FOOTER-1" {
			return fmt.Errorf("render %d: footer lines %d,%d overwritten: %q %q", ri+1, c.N, c.N+1, vt.Get(c.N), vt.Get(c.N+1))
		}
		o.Add("renders", 1)
		o.Label(len(model) > c.N, "more-rows-than-fit")
		o.Label(len(shown) >= 3, "rows>=3")
	}
	writer.Close()

	if c.All {
		vterm := multiterm.NewVirtualTerm()
		vWriter := termrenderers.NewHistogram(vterm, counter.GroupCount())
		writeHistoOutput(vWriter, counter, counter.GroupCount(), sorter, c.AtLeast)
		shown, err := histoShown(counter, model, counter.GroupCount(), sorter, c.AtLeast)
		if err != nil {
			return err
		}
		// the --all writer uses the defaults of NewHistogram
		dc := c
		dc.Scale, dc.Format, dc.Bars, dc.Pct = "linear", "", true, true
		df, _ := buildFormatter("")
		hm := int64(math.MinInt64)
		if err := checkHistoRender(vterm, shown, total, dc, df, &hm, o); err != nil {
			return fmt.Errorf("--all table: %v%s", err, dump(vterm))
		}
	}
	return nil
}

// histoShown: what writeHistoOutput is asked to show, with the values taken
// from the harness' own fold of the history.
func histoShown(counter *aggregation.MatchCounter, model map[string]int64, n int, sorter sorting.NameValueSorter, atLeast int64) ([]kv, error) {
	var shown []kv
	for _, it := range counter.ItemsSortedBy(n, sorter) {
		want, ok := model[it.Name]
		if !ok || want != it.Item.Count() {
			return nil, fmt.Errorf("harness: aggregator disagrees with the fold of the history for key %q: %d vs %d (C07 territory)", it.Name, it.Item.Count(), want)
		}
		if want >= atLeast {
			shown = append(shown, kv{it.Name, want})
		}
	}
	return shown, nil
}

func checkHistoRender(vt *multiterm.VirtualTerm, shown []kv, total int64, c HistoCase, f func(int64, int64, int64) string, histMax *int64, o *pbt.Obs) error {
	var bars []barObs
	maxNow := int64(math.MinInt64)
	lineBounds := "" // min/max handed to the formatter, as the first parsed line shows them
	for i, it := range shown {
		if it.val > maxNow {
			maxNow = it.val
		}
		o.Label(it.val < 0, "negative-value")
		o.Label(it.val == 0, "zero-value")
		o.Label(it.val >= 1<<53 || it.val <= -(1<<53), "huge-value")
		o.Label(it.key == "", "empty-key")
		o.Label(vis(it.key) > 16, "key>default-width")
		o.Label(len(it.key) != vis(it.key), "multibyte-key")
		if hasESC(it.key) {
			o.Label(true, "esc-key(crash-only)")
			pbt.Exclude("histogram row whose key holds ESC: line not parsed")
			continue
		}
		line := strip(vt.Get(i))
		where := fmt.Sprintf("line %d (key %q)", i, pbt.Trunc(it.key, 30))
		if !strings.HasPrefix(line, it.key) {
			return fmt.Errorf("%s: shows %q, want the row of key %q = %d", where, pbt.Trunc(line, 120), it.key, it.val)
		}
		rest := line[len(it.key):]
		t := strings.TrimLeft(rest, " ")
		if len(t) == len(rest) {
			return fmt.Errorf("%s: key not separated from the value in %q", where, line)
		}
		if !valueOnly(c.Format) {
			// the formatter reads min/max; which ones a renderer hands
			// over is not stated, so the number itself is not compared. One
			// thing holds whatever "the set" is: one render has one set, so
			// every line of it carries the same min/max (a line left over
			// from before the maximum moved does not).
			if c.Format == "{0}/{min}/{max}" {
				if m := boundsCell.FindStringSubmatch(t); m != nil && strings.HasPrefix(t, m[0]) {
					b := m[2] + "/" + m[3]
					if lineBounds == "" {
						lineBounds = b
					} else if b != lineBounds {
						return fmt.Errorf("%s: shows %q with min/max %s, an earlier line of the same render carries %s (\"the min/max value in the set\")", where, m[0], b, lineBounds)
					}
					o.Label(true, "bounds-law-checked")
				}
			}
			pbt.Exclude("formatter depending on min/max: displayed number not compared")
			continue
		}
		want := f(it.val, 0, 0)
		if !strings.HasPrefix(t, want) {
			return fmt.Errorf("%s: displayed number %q, want %q = formatter(%d)", where, pbt.Trunc(t, 60), want, it.val)
		}
		t = t[len(want):]
		if t != "" && t[0] != ' ' {
			return fmt.Errorf("%s: displayed number %q is not exactly %q = formatter(%d)", where, pbt.Trunc(want+t, 60), want, it.val)
		}
		t = strings.TrimLeft(t, " ")
		if strings.HasPrefix(t, "[") {
			end := strings.Index(t, "%]")
			if end < 0 {
				return fmt.Errorf("%s: malformed percentage in %q", where, line)
			}
			p, perr := strconv.ParseFloat(strings.TrimSpace(t[1:end]), 64)
			if perr != nil {
				return fmt.Errorf("%s: malformed percentage %q", where, t[:end+2])
			}
			if !c.Pct {
				return fmt.Errorf("%s: percentage shown although not asked for", where)
			}
			want := float64(it.val) / float64(total) * 100
			if math.Abs(p-want) > 0.05+1e-9*math.Abs(want)+1e-9 {
				return fmt.Errorf("%s: displayed percentage %v, want %.4f (%d of total %d)", where, p, want, it.val, total)
			}
			o.Label(true, "percentage-shown")
			t = strings.TrimLeft(t[end+2:], " ")
		}
		if t != "" && !c.Bars {
			return fmt.Errorf("%s: unexpected text %q (bars are off)", where, t)
		}
		cells, eighths, err := barLen(t, c.Unicode)
		if err != nil {
			return fmt.Errorf("%s: %v", where, err)
		}
		if c.Bars {
			bars = append(bars, barObs{it.val, eighths, cells, where})
		}
	}
	if maxNow > *histMax {
		*histMax = maxNow
	}
	o.Label(len(shown) > 0 && maxNow <= 0, "max<=0")
	o.Label(len(shown) > 1 && maxNow == shown[0].val && allEqual(shown), "all-equal")
	if len(bars) > 0 {
		o.Label(true, "bars-checked")
		if err := checkBars(bars, 50, c.Scale, c.Unicode, *histMax); err != nil {
			return err
		}
	}
	return nil
}

func allEqual(l []kv) bool {
	for _, x := range l {
		if x.val != l[0].val {
			return false
		}
	}
	return true
}

func genHisto(t *rapid.T) HistoCase {
	c := HistoCase{Obs: pbt.NewObs()}
	c.Cfg = genCfg(t, true)
	c.Samples, c.Profile = genHistory(t, false, 25, 1, 60)
	c.Cuts = genCuts(t, len(c.Samples))
	c.N = rapid.SampledFrom([]int{0, 1, 2, 3, 5, 5, 8, 20, 30}).Draw(t, "n")
	c.AtLeast = rapid.SampledFrom([]int64{0, 0, 0, 2, -5, math.MinInt64}).Draw(t, "atleast")
	if c.Profile == "neg" || c.Profile == "mixed" || c.Profile == "huge" {
		c.AtLeast = rapid.SampledFrom([]int64{0, -5, math.MinInt64, math.MinInt64}).Draw(t, "atleast2")
	}
	c.Sort = rapid.SampledFrom(sorterNames).Draw(t, "sort")
	x := rapid.IntRange(0, 5).Draw(t, "extra")
	c.Bars, c.Pct = x != 0, x >= 2 && x != 3
	c.All = rapid.IntRange(0, 4).Draw(t, "all") == 0
	return c
}

func classifyHisto(c HistoCase) (bool, []string) {
	o := c.Obs
	l := pbt.Labels{"profile:" + c.Profile, "scale:" + c.Scale}
	l.Add(c.Color, "color")
	l.Add(c.Unicode, "unicode")
	l.Add(c.N == 0, "limit-0")
	l.Add(c.Format != "", "custom-format")
	l = append(l, o.All()...)
	hostile := o.Has("max<=0") || o.Has("negative-value") || o.Has("zero-value") || o.Has("empty-key") || o.Has("key>default-width") ||
		o.Has("more-rows-than-fit") || o.Has("huge-value") || o.Has("all-equal") || o.Has("multibyte-key") || c.N == 0
	nt := o.Has("rows>=3") && o.Get("renders") >= 2 && hostile
	return nt, l
}

var histoSpec = pbt.Spec[HistoCase]{
	Property: "C14", Name: "histogram",
	Rule:   "history of (key,inc) samples (profiles pos/zero/neg/mixed/huge/all-equal; keys incl. empty, >16 cells, multi-byte, ESC, invalid UTF-8) fed to the real MatchCounter and rendered through the transcribed writeHistoOutput after every cut (1-5 renders of the growing state) x --num 0..30 x --atleast x sort x scale x format x bars/percentage x colour x unicode (+ the --all table). Oracle: no panic/hang; line i shows key i and formatter(value i) with values from an independent fold; percentage = value/total; bars <= 50 cells, non-decreasing in the value, empty for values <= 0, proportional on the linear scale, full for the largest value ever shown. Non-trivial: >=3 rows shown, >=2 renders, and a hostile feature (max<=0, negative/zero/huge value, empty/long/multi-byte key, limit 0, more rows than fit, all equal)",
	Budget: pbt.Budget{Quick: 40000, Thorough: 800000},
	Gen:    genHisto, Check: heapGuard(checkHisto), Watchdog: caseWatchdog, Classify: classifyHisto,
}

func TestHistogram(t *testing.T) { pbt.Run(t, histoSpec) }
