package c11

import (
	"fmt"
	"strings"
	"testing"

	"pgregory.net/rapid"
	"verifharness/pbt"
)

// ---------- lookup haskey -----------------------------------------------------------
//
// Docs: {lookup key "kv-pairs" ["commentPrefix"]}, {haskey ...}: "Given a set
// of kv-pairs (eg. from a loaded file), lookup a key. For lookup return a
// value and for haskey return truthy or falsey. If a commentPrefix is
// provided, lines in lookup text are ignored if they start with the prefix.
// Keys and values are separated by any whitespace. ... blank lines are
// ignored / too many values are also ignored".
//
// The table is generated line by line (kinds: pair, comment, blank,
// three-or-more fields) with unique keys; the reference is the list of pair
// lines itself — nothing is parsed back. Left open and not generated: lines
// with a single field, duplicate keys, leading/trailing blanks on a line,
// CRLF, a comment prefix preceded by blanks, keys that start with the comment
// prefix, non-constant table or prefix.

type tableLine struct {
	kind string // pair | comment | blank | extra
	text string
	key  string
	val  string
}

var keyWords = []string{"bob", "jack", "jill", "key1", "k", "200", "404", "GET", "/index.html", "a.b", "x=y", "é", "10.0.0.1", "{v}", "q\"", "b\\s"}
var valWords = []string{"val1", "22", "93", "v", "-", "OK", "Not_Found", "é", "0", "{0}", "a,b"}

func genLookup(t *rapid.T) Case {
	fn := rapid.SampledFrom([]string{"lookup", "haskey"}).Draw(t, "fn")
	c := Case{Fn: fn, Obs: pbt.NewObs()}
	prefix := ""
	if rapid.Bool().Draw(t, "hasprefix") {
		prefix = rapid.SampledFrom([]string{"#", "#", "//", ";", "--"}).Draw(t, "prefix")
	}
	n := rapid.IntRange(0, 8).Draw(t, "lines")
	used := map[string]bool{}
	var lines []tableLine
	sep := func() string {
		return rapid.SampledFrom([]string{" ", " ", " ", "\t", "  ", " \t"}).Draw(t, "sep")
	}
	freshKey := func() (string, bool) {
		k := rapid.SampledFrom(keyWords).Draw(t, "key")
		if rapid.Bool().Draw(t, "suffix") {
			k += itoa(rapid.Int64Range(0, 30).Draw(t, "n"))
		}
		if prefix != "" && rapid.IntRange(0, 5).Draw(t, "embed") == 0 {
			// the comment prefix inside a key: only a line *starting* with it is a comment
			k += prefix + "x"
		}
		if used[k] || (prefix != "" && strings.HasPrefix(k, prefix)) {
			return "", false
		}
		used[k] = true
		return k, true
	}
	for i := 0; i < n; i++ {
		switch rapid.IntRange(0, 7).Draw(t, "kind") {
		case 0:
			lines = append(lines, tableLine{kind: "blank"})
		case 1:
			if prefix == "" {
				continue
			}
			k, ok := freshKey()
			if !ok {
				continue
			}
			body := rapid.SampledFrom([]string{"", " note", k + " hidden", " " + k + " hidden", k}).Draw(t, "cbody")
			lines = append(lines, tableLine{kind: "comment", text: prefix + body, key: k})
		case 2:
			k, ok := freshKey()
			if !ok {
				continue
			}
			extra := rapid.IntRange(2, 3).Draw(t, "extra")
			txt := k
			for j := 0; j < extra; j++ {
				txt += sep() + rapid.SampledFrom(valWords).Draw(t, "xv")
			}
			lines = append(lines, tableLine{kind: "extra", text: txt, key: k})
		default:
			k, ok := freshKey()
			if !ok {
				continue
			}
			v := rapid.SampledFrom(valWords).Draw(t, "val")
			if rapid.Bool().Draw(t, "vsuffix") {
				v += itoa(rapid.Int64Range(0, 99).Draw(t, "vn"))
			}
			if prefix != "" && rapid.IntRange(0, 5).Draw(t, "vembed") == 0 {
				v = rapid.SampledFrom([]string{prefix, prefix + v, v + prefix}).Draw(t, "vprefix")
			}
			lines = append(lines, tableLine{kind: "pair", text: k + sep() + v, key: k, val: v})
		}
	}
	var sb strings.Builder
	for i, l := range lines {
		if i > 0 {
			sb.WriteByte('\n')
		}
		sb.WriteString(l.text)
	}
	if len(lines) > 0 && rapid.Bool().Draw(t, "finalnl") {
		sb.WriteByte('\n')
	}
	// the key looked up: one of the table's keys (any kind), a value word, or a stranger
	var key string
	switch {
	case len(lines) > 0 && rapid.IntRange(0, 3).Draw(t, "probe") > 0:
		l := rapid.SampledFrom(lines).Draw(t, "probeline")
		key = l.key
		if l.kind == "pair" && rapid.IntRange(0, 5).Draw(t, "probeval") == 0 {
			key = l.val
		}
		if l.kind == "blank" {
			key = "nobody"
		}
	default:
		key = rapid.SampledFrom([]string{"nobody", "", "bob", "val1", "#", "key", "too"}).Draw(t, "stranger")
	}
	c.Args = []Arg{mkArg(t, 0, key, false), konst(sb.String())}
	if prefix != "" {
		c.Args = append(c.Args, konst(prefix))
	}
	return c
}

// parseTable re-reads a generated table under the documented format. It
// refuses (ok=false) anything outside the generated shape.
func parseTable(text, prefix string) (pairs map[string]string, ignored map[string]bool, ok bool) {
	pairs, ignored = map[string]string{}, map[string]bool{}
	if strings.ContainsAny(text, "\r\v\f\x00") {
		return nil, nil, false
	}
	text = strings.TrimSuffix(text, "\n")
	if text == "" {
		return pairs, ignored, true
	}
	for _, line := range strings.Split(text, "\n") {
		if line == "" {
			continue
		}
		if prefix != "" && strings.HasPrefix(line, prefix) {
			for _, f := range fieldsOf(line[len(prefix):]) {
				ignored[f] = true
			}
			continue
		}
		if line[0] == ' ' || line[0] == '\t' || line[len(line)-1] == ' ' || line[len(line)-1] == '\t' {
			return nil, nil, false
		}
		f := fieldsOf(line)
		switch {
		case len(f) == 2:
			if _, dup := pairs[f[0]]; dup {
				return nil, nil, false
			}
			pairs[f[0]] = f[1]
		case len(f) > 2:
			ignored[f[0]] = true
		default:
			return nil, nil, false // single field: open
		}
	}
	for k := range ignored {
		if _, both := pairs[k]; both {
			delete(ignored, k)
		}
	}
	return pairs, ignored, true
}

func fieldsOf(s string) []string {
	var out []string
	start := -1
	for i := 0; i < len(s); i++ {
		if s[i] == ' ' || s[i] == '\t' {
			if start >= 0 {
				out = append(out, s[start:i])
				start = -1
			}
		} else if start < 0 {
			start = i
		}
	}
	if start >= 0 {
		out = append(out, s[start:])
	}
	return out
}

func checkLookup(c Case) error {
	v := c.vals()
	if len(v) < 2 || len(v) > 3 {
		return nil
	}
	prefix := ""
	if len(v) == 3 {
		prefix = v[2]
		if prefix == "" {
			return nil
		}
	}
	pairs, ignored, ok := parseTable(v[1], prefix)
	if !ok {
		return nil // not generated
	}
	r, err := evalClean(c)
	if err != nil {
		return err
	}
	val, has := pairs[v[0]]
	c.Obs.Label(has, "hit")
	c.Obs.Label(!has && ignored[v[0]], "miss:key-on-ignored-line")
	c.Obs.Label(!has && !ignored[v[0]], "miss:stranger")
	c.Obs.Label(prefix != "", "comment-prefix")
	c.Obs.Label(len(pairs) == 0, "no-pairs")
	c.Obs.Label(strings.Contains(v[1], "\t"), "tab-separated")
	if prefix != "" {
		for k, pv := range pairs {
			if strings.Contains(k, prefix) || strings.Contains(pv, prefix) {
				c.Obs.Label(true, "prefix-inside-pair-line")
				break
			}
		}
	}
	if c.Fn == "haskey" {
		return wantTruth(c, r, has)
	}
	if has {
		return wantExact(c, r, val)
	}
	return wantTruth(c, r, false)
}

func classifyLookup(c Case) (bool, []string) {
	l := baseLabels(c)
	return len(c.Args) >= 2 && c.arg(1) != "", l
}

var specLookup = pbt.Spec[Case]{
	Property: prop, Name: "lookup",
	Rule:     "lookup/haskey against a generated constant table of 0-8 lines (key/value pairs separated by blanks or tabs, comment lines when a prefix is given, blank lines, lines with 3-4 fields; unique keys) with or without a comment prefix (#, //, ;, --); the probed key (constant/group/key) is a pair key, a key that only occurs on an ignored line, a value word or a stranger; oracle: the pair lines. Non-trivial: non-empty table",
	Budget:   pbt.Budget{Quick: 12000, Thorough: 96000},
	Gen:      genLookup,
	Check:    checkLookup,
	Classify: classifyLookup,
}

func TestLookup(t *testing.T) { pbt.Run(t, specLookup) }

// ---------- basename dirname extname ---------------------------------------------------
//
// Docs: basename a/b/c = c ; dirname a/b/c = a/b ; extname a/b/c.jpg = .jpg
// Generated: clean relative (or absolute) POSIX paths built from components;
// the expected answers come from the components, not from parsing the path.
// Left open: single-component dirname, trailing slashes, "." and "..",
// doubled slashes, dot-files, several dots in the last component.

var pathComps = []string{"a", "b", "c", "ab", "var", "log", "nginx", "usr", "x-1", "my_dir", "v1.2", "conf.d", "é", "with space", "{x}"}
var fileBases = []string{"c", "access", "file", "README", "x_1", "a-b", "日本", "my file", "{y}"}
var fileExts = []string{"", "", "jpg", "log", "gz", "txt", "c", "JPG", "7z", "html"}

func genPath(t *rapid.T) Case {
	fn := rapid.SampledFrom([]string{"basename", "dirname", "extname"}).Draw(t, "fn")
	c := Case{Fn: fn, Obs: pbt.NewObs()}
	nd := rapid.IntRange(0, 4).Draw(t, "dirs")
	if fn == "dirname" && nd == 0 {
		nd = 1
	}
	var parts []string
	for i := 0; i < nd; i++ {
		parts = append(parts, rapid.SampledFrom(pathComps).Draw(t, "dir"))
	}
	file := rapid.SampledFrom(fileBases).Draw(t, "base")
	if e := rapid.SampledFrom(fileExts).Draw(t, "ext"); e != "" {
		file += "." + e
	}
	parts = append(parts, file)
	p := strings.Join(parts, "/")
	if nd > 0 && rapid.IntRange(0, 3).Draw(t, "abs") == 0 {
		p = "/" + p
	}
	c.Args = []Arg{mkArg(t, 0, p, false)}
	return c
}

func checkPath(c Case) error {
	if len(c.Args) != 1 {
		return nil
	}
	p := c.arg(0)
	if p == "" || strings.HasSuffix(p, "/") || strings.Contains(p, "//") || strings.ContainsAny(p, "\x00\\") {
		return nil
	}
	abs := strings.HasPrefix(p, "/")
	comps := strings.Split(strings.TrimPrefix(p, "/"), "/")
	for _, k := range comps {
		if k == "" || k == "." || k == ".." {
			return nil
		}
	}
	last := comps[len(comps)-1]
	if strings.HasPrefix(last, ".") || strings.Count(last, ".") > 1 || strings.HasSuffix(last, ".") {
		return nil
	}
	if c.Fn == "dirname" && len(comps) < 2 {
		return nil
	}
	r, err := evalClean(c)
	if err != nil {
		return err
	}
	c.Obs.Label(abs, "absolute")
	c.Obs.Label(len(comps) == 1, "bare-file")
	c.Obs.Label(len(comps) > 2, "deep")
	switch c.Fn {
	case "basename":
		return wantExact(c, r, last)
	case "dirname":
		d := strings.Join(comps[:len(comps)-1], "/")
		if abs {
			d = "/" + d
		}
		return wantExact(c, r, d)
	case "extname":
		want := ""
		if i := strings.IndexByte(last, '.'); i >= 0 {
			want = last[i:]
		}
		c.Obs.Label(want != "", "has-ext")
		dotted := false
		for _, k := range comps[:len(comps)-1] {
			dotted = dotted || strings.Contains(k, ".")
		}
		c.Obs.Label(dotted, "dotted-directory")
		return wantExact(c, r, want)
	}
	return fmt.Errorf("harness: unknown fn %s", c.Fn)
}

func classifyPath(c Case) (bool, []string) { return true, baseLabels(c) }

var specPath = pbt.Spec[Case]{
	Property: prop, Name: "path",
	Rule:     "basename/dirname/extname of a path assembled from 0-4 directory components (some with dots, blanks, braces, non-ASCII) and a file name with at most one dot, relative or absolute, via constant/group/key; expected answers come from the components. Every case non-trivial",
	Budget:   pbt.Budget{Quick: 6000, Thorough: 48000},
	Gen:      genPath,
	Check:    checkPath,
	Classify: classifyPath,
}

func TestPath(t *testing.T) { pbt.Run(t, specPath) }

// ---------- csv ---------------------------------------------------------------------
//
// Statement: "{csv ..} parses back to its arguments". The reference is an
// RFC 4180 record parser written here (strict: a quote inside an unquoted
// field, text after a closing quote, or a bare CR/LF outside quotes is an
// error / record end). Not generated: the single empty argument (an empty
// line is zero fields or one empty field, RFC 4180 does not say).

func genCSVField(t *rapid.T, label string) string {
	switch rapid.IntRange(0, 5).Draw(t, label+"-class") {
	case 0:
		return ""
	case 1:
		return rapid.SampledFrom([]string{"a", "b c", "1", "-2.5", "é", "x\x00y", "\xff\xfe", " lead", "trail ", "{0}"}).Draw(t, label)
	case 2:
		return rapid.SampledFrom([]string{",", "\"", "\"\"", "\n", "\r", "\r\n", "a,b", "say \"hi\"", "\"quoted\"", "line1\nline2", "a\"", "\"a", ",\"\n", "a,\"b\",c", "'", "a;b", "\t"}).Draw(t, label)
	default:
		return rapid.StringOfN(rapid.RuneFrom([]rune("ab,\"\n\r '")), 0, 6, -1).Draw(t, label)
	}
}

func genCSV(t *rapid.T) Case {
	c := Case{Fn: "csv", Obs: pbt.NewObs()}
	n := rapid.IntRange(1, 6).Draw(t, "n")
	for i := 0; i < n; i++ {
		c.Args = append(c.Args, mkArg(t, i, genCSVField(t, "f"), false))
	}
	if n == 1 && c.arg(0) == "" {
		pbt.Exclude("csv of one empty value")
		c.Args[0].V = "x"
	}
	return c
}

// parseCSVRecord parses exactly one RFC 4180 record that spans the whole input.
func parseCSVRecord(s string) ([]string, error) {
	var fields []string
	i := 0
	for {
		var f strings.Builder
		if i < len(s) && s[i] == '"' {
			i++
			closed := false
			for i < len(s) {
				if s[i] == '"' {
					if i+1 < len(s) && s[i+1] == '"' {
						f.WriteByte('"')
						i += 2
						continue
					}
					i++
					closed = true
					break
				}
				f.WriteByte(s[i])
				i++
			}
			if !closed {
				return nil, fmt.Errorf("unterminated quoted field")
			}
			if i < len(s) && s[i] != ',' {
				return nil, fmt.Errorf("text after closing quote at byte %d", i)
			}
		} else {
			for i < len(s) && s[i] != ',' {
				switch s[i] {
				case '"':
					return nil, fmt.Errorf("quote inside unquoted field at byte %d", i)
				case '\r', '\n':
					return nil, fmt.Errorf("bare line break at byte %d ends the record early", i)
				}
				f.WriteByte(s[i])
				i++
			}
		}
		fields = append(fields, f.String())
		if i >= len(s) {
			return fields, nil
		}
		i++ // the comma
	}
}

func checkCSV(c Case) error {
	v := c.vals()
	if len(v) == 0 || (len(v) == 1 && v[0] == "") {
		return nil
	}
	r, err := evalClean(c)
	if err != nil {
		return err
	}
	got, perr := parseCSVRecord(r.out)
	if perr != nil {
		return fail(c, r, "output is not one RFC 4180 record: %v", perr)
	}
	if len(got) != len(v) {
		return fail(c, r, "parses back to %d fields %q, want %d", len(got), got, len(v))
	}
	for i := range v {
		if got[i] != v[i] {
			return fail(c, r, "field %d parses back to %q, want %q", i, got[i], v[i])
		}
	}
	for _, a := range v {
		c.Obs.Label(strings.Contains(a, ","), "has-comma")
		c.Obs.Label(strings.Contains(a, "\""), "has-quote")
		c.Obs.Label(strings.ContainsAny(a, "\r\n"), "has-linebreak")
		c.Obs.Label(a == "", "has-empty")
		c.Obs.Label(strings.Contains(a, "\"") && !strings.ContainsAny(a, ",\r\n"), "quote-only")
	}
	return nil
}

func classifyCSV(c Case) (bool, []string) {
	l := baseLabels(c)
	nt := false
	for _, a := range c.vals() {
		nt = nt || strings.ContainsAny(a, ",\"\r\n") || a == ""
	}
	l.Add(len(c.Args) > 1, "multi-field")
	return nt, l
}

var specCSV = pbt.Spec[Case]{
	Property: prop, Name: "csv",
	Rule:     "{csv a..} with 1-6 values drawn from empty, plain, arbitrary bytes, and strings over {a b , \" LF CR blank '} up to 6 long, via constant/group/key; the output must parse, with a strict RFC 4180 single-record parser, back to exactly the arguments. Non-trivial: some value is empty or holds comma, quote, CR or LF",
	Budget:   pbt.Budget{Quick: 15000, Thorough: 120000},
	Gen:      genCSV,
	Check:    checkCSV,
	Classify: classifyCSV,
}

func TestCSV(t *testing.T) { pbt.Run(t, specCSV) }
