package c11

import (
	"fmt"
	"math"
	"strconv"
	"testing"

	"verifharness/pbt"
)

// ---------- bounded-exhaustive grid ------------------------------------------------
//
// Small complete grids around the breakpoints the statement names (bucket
// multiples of both signs, clamp bounds, every digit count of hi, every unit
// boundary of the unitizers, substr windows, csv special characters). The
// oracles are the family oracles above; every grid point is evaluated once
// with the value as a template constant and once from a match group.

type family struct {
	check    func(Case) error
	classify func(Case) (bool, []string)
}

var families = map[string]family{}

func init() {
	reg := func(f family, fns ...string) {
		for _, fn := range fns {
			families[fn] = f
		}
	}
	reg(family{checkIntArith, classifyIntArith}, intFns...)
	reg(family{checkFloatFold, classifyFloat}, foldfFns...)
	reg(family{checkRounding, classifyRounding}, "floor", "ceil", "round")
	reg(family{checkTranscend, classifyTranscend}, "log10", "log2", "ln", "sqrt", "pow")
	reg(family{checkLogic, classifyLogic}, logicFns...)
	reg(family{checkCompare, classifyCompare}, "lt", "gt", "lte", "gte")
	reg(family{checkTyped, classifyTyped}, "isint", "isnum")
	reg(family{checkStrings, classifyStrings}, "len", "like", "prefix", "suffix", "substr", "select", "upper", "lower", "format", "tab")
	reg(family{checkBucketing, classifyBucketing}, "bucket", "bucketrange", "clamp", "expbucket")
	reg(family{checkLookup, classifyLookup}, "lookup", "haskey")
	reg(family{checkPath, classifyPath}, "basename", "dirname", "extname")
	reg(family{checkCSV, classifyCSV}, "csv")
	reg(family{checkNumFmt, classifyNumFmt}, "hi", "hf", "percent", "bytesize", "bytesizesi", "downscale")
}

func checkAny(c Case) error {
	f, ok := families[c.Fn]
	if !ok {
		return fmt.Errorf("harness: no oracle for %q", c.Fn)
	}
	return f.check(c)
}

func classifyAny(c Case) (bool, []string) {
	f, ok := families[c.Fn]
	if !ok {
		return false, nil
	}
	return f.classify(c)
}

var specGrid = pbt.Spec[Case]{
	Property: prop, Name: "grid",
	Rule:     "bounded-exhaustive: bucket/bucketrange for v in [-40,40] x size in [1,9]; clamp for min<=max in [-3,3] x v in [-5,5] and at the int64 ends; expbucket and hi at 10^k-1, 10^k, 10^k+1, 5*10^k for every k (both signs for hi, plus MinInt64/MaxInt64); hf at 1000^k +- {0, 0.00004, 0.00005, 0.00006, 0.5}; bytesize/bytesizesi/downscale at step^k-1, step^k, step^k+1 with precision absent/0/2; substr over every (pos,len) window of \"abcd\"; select of every index of a 4-word line; csv of every string of length <=2 over {a , \" LF CR} alone and as second field; lt..gte on [-2,2]^2; each point once as constant and once from a match group. Non-trivial per the family rules",
	Check:    checkAny,
	Classify: classifyAny,
}

func TestGrid(t *testing.T) {
	pbt.Enum(t, specGrid, func(yield func(Case) bool) {
		emit := func(fn string, first string, rest ...string) bool {
			for _, via := range []string{"const", "group"} {
				c := Case{Fn: fn, Obs: pbt.NewObs()}
				c.Args = append(c.Args, Arg{V: pbt.S(first), Via: via})
				for _, r := range rest {
					c.Args = append(c.Args, konst(r))
				}
				if via == "const" && !constOK(first) {
					continue
				}
				if !yield(c) {
					return false
				}
			}
			return true
		}
		// bucket / bucketrange
		for s := int64(1); s <= 9; s++ {
			for v := int64(-40); v <= 40; v++ {
				if !emit("bucket", itoa(v), itoa(s)) || !emit("bucketrange", itoa(v), itoa(s)) {
					return
				}
			}
		}
		for _, s := range []int64{50, 100, 1000} {
			for m := int64(-3); m <= 3; m++ {
				for d := int64(-1); d <= 1; d++ {
					if !emit("bucket", itoa(m*s+d), itoa(s)) || !emit("bucketrange", itoa(m*s+d), itoa(s)) {
						return
					}
				}
			}
		}
		// clamp
		for lo := int64(-3); lo <= 3; lo++ {
			for hi := lo; hi <= 3; hi++ {
				for v := int64(-5); v <= 5; v++ {
					if !emit("clamp", itoa(v), itoa(lo), itoa(hi)) {
						return
					}
				}
			}
		}
		for _, v := range []int64{math.MinInt64, math.MinInt64 + 1, -1, 0, 1, math.MaxInt64 - 1, math.MaxInt64} {
			if !emit("clamp", itoa(v), itoa(math.MinInt64), itoa(math.MaxInt64)) ||
				!emit("clamp", itoa(v), itoa(math.MinInt64+1), itoa(math.MaxInt64-1)) {
				return
			}
		}
		// powers of ten: expbucket, hi
		for k := 0; k <= 18; k++ {
			p := pow10i(k)
			vals := []int64{p - 1, p, p + 1, 5 * p}
			if k <= 17 {
				vals = append(vals, 10*p-1, 9*p)
			}
			for _, v := range vals {
				if v >= 1 && !emit("expbucket", itoa(v)) {
					return
				}
				if !emit("hi", itoa(v)) || !emit("hi", itoa(-v)) {
					return
				}
			}
		}
		for _, v := range []int64{math.MinInt64, math.MinInt64 + 1, math.MaxInt64, math.MaxInt64 - 1} {
			if !emit("hi", itoa(v)) {
				return
			}
			if v > 0 && !emit("expbucket", itoa(v)) {
				return
			}
		}
		// hf around powers of 1000
		p := int64(1)
		for k := 1; k <= 4; k++ {
			p *= 1000
			for _, d := range []int64{0, -4, -5, -6, -50000, 4, 5, 6, 50000} {
				m := p*100000 + d // scale 5
				for _, sgn := range []int64{1, -1} {
					if !emit("hf", decStr(sgn*m, 5)) {
						return
					}
				}
			}
		}
		// unitizers at their boundaries
		for _, u := range []struct {
			fn   string
			step int64
		}{{"bytesize", 1024}, {"bytesizesi", 1000}, {"downscale", 1000}} {
			q := int64(1)
			for k := 1; k <= 6; k++ {
				q *= u.step
				for _, m := range []int64{1, 999, 1000, 1023} {
					if q > math.MaxInt64/m {
						continue
					}
					for d := int64(-1); d <= 1; d++ {
						v := q*m + d
						for _, prec := range []string{"", "0", "2"} {
							var rest []string
							if prec != "" {
								rest = []string{prec}
							}
							if !emit(u.fn, itoa(v), rest...) {
								return
							}
							if u.fn == "downscale" && !emit(u.fn, itoa(-v), rest...) {
								return
							}
						}
					}
				}
			}
			for _, v := range []int64{0, 1, 999, 1000, 1023, 1024, math.MaxInt64} {
				if !emit(u.fn, itoa(v)) {
					return
				}
			}
		}
		// substr windows
		for pos := 0; pos <= 4; pos++ {
			for ln := 0; ln <= 5; ln++ {
				for _, via := range []string{"const", "group"} {
					c := Case{Fn: "substr", Obs: pbt.NewObs(), Args: []Arg{{V: "abcd", Via: via}, {V: pbt.S(strconv.Itoa(pos)), Via: via}, {V: pbt.S(strconv.Itoa(ln)), Via: via}}}
					if !yield(c) {
						return
					}
				}
			}
		}
		// select
		for _, line := range []string{"ab cd ef gh", "ab  cd\tef\ngh", "a b c d"} {
			for idx := 0; idx < 4; idx++ {
				if !emit("select", line, strconv.Itoa(idx)) {
					return
				}
			}
		}
		// csv over a small alphabet
		alpha := []string{"a", ",", "\"", "\n", "\r"}
		var strs []string
		strs = append(strs, "")
		for _, x := range alpha {
			strs = append(strs, x)
			for _, y := range alpha {
				strs = append(strs, x+y)
			}
		}
		for _, s := range strs {
			if s != "" && !emit("csv", s) {
				return
			}
			for _, via := range []string{"const", "group"} {
				c := Case{Fn: "csv", Obs: pbt.NewObs(), Args: []Arg{konst("x"), {V: pbt.S(s), Via: via}, group("")}}
				if !yield(c) {
					return
				}
			}
		}
		// comparisons
		for a := int64(-2); a <= 2; a++ {
			for b := int64(-2); b <= 2; b++ {
				for _, fn := range []string{"lt", "gt", "lte", "gte"} {
					for _, via := range []string{"const", "group"} {
						c := Case{Fn: fn, Obs: pbt.NewObs(), Args: []Arg{{V: pbt.S(itoa(a)), Via: via}, {V: pbt.S(itoa(b)), Via: "const"}}}
						if !yield(c) {
							return
						}
					}
				}
			}
		}
	})
}
