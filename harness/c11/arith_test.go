package c11

import (
	"fmt"
	"math/big"
	"testing"

	"pgregory.net/rapid"
	"verifharness/pbt"
)

// ---------- integer arithmetic: sumi subi multi divi modi maxi mini ----------
//
// Docs: "Evaluates integers using operator from left to right. Requires at
// least 2 arguments." / "Picks the larger or smallest integer".
//
// Left open by the docs and therefore not generated: results (or intermediate
// results) outside int64; zero divisors (the crash belongs to C08);
// non-canonical spellings (+5, 007, " 5"); and for divi/modi the rounding
// direction when an operand is negative and the division is inexact — there
// only the convention-independent law is asserted (2-argument calls):
// |a/b - q| < 1, and r ≡ a (mod b) with |r| < |b|.

var intFns = []string{"sumi", "subi", "multi", "divi", "modi", "maxi", "mini"}

type istep struct {
	ok        bool // representable and unambiguous
	ambiguous bool // divi/modi with a negative operand and a remainder
	val       *big.Int
}

func intStep(fn string, a, b *big.Int) istep {
	r := new(big.Int)
	switch fn {
	case "sumi":
		r.Add(a, b)
	case "subi":
		r.Sub(a, b)
	case "multi":
		r.Mul(a, b)
	case "maxi":
		if a.Cmp(b) >= 0 {
			r.Set(a)
		} else {
			r.Set(b)
		}
	case "mini":
		if a.Cmp(b) <= 0 {
			r.Set(a)
		} else {
			r.Set(b)
		}
	case "divi", "modi":
		if b.Sign() == 0 {
			return istep{}
		}
		q, m := new(big.Int).QuoRem(a, b, new(big.Int)) // truncated; only used when unambiguous
		amb := m.Sign() != 0 && (a.Sign() < 0 || b.Sign() < 0)
		if fn == "divi" {
			r = q
		} else {
			r = m
		}
		return istep{ok: fits64(r), ambiguous: amb, val: r}
	}
	return istep{ok: fits64(r), val: r}
}

func neutral(fn string) int64 {
	switch fn {
	case "multi", "divi", "modi":
		return 1
	}
	return 0
}

func genIntArith(t *rapid.T) Case {
	fn := rapid.SampledFrom(intFns).Draw(t, "fn")
	c := Case{Fn: fn, Obs: pbt.NewObs()}
	if rapid.IntRange(0, 11).Draw(t, "nonnumeric") == 0 {
		n := rapid.IntRange(2, 4).Draw(t, "n")
		bad := rapid.IntRange(0, n-1).Draw(t, "bad")
		for i := 0; i < n; i++ {
			v := itoa(rapid.Int64Range(1, 50).Draw(t, "ok"))
			if i == bad {
				v = genNonNumeric(t, "nn")
			}
			c.Args = append(c.Args, mkArg(t, i, v, false))
		}
		return c
	}
	n := rapid.SampledFrom([]int{2, 2, 2, 3, 3, 4, 5}).Draw(t, "n")
	small := rapid.IntRange(0, 3).Draw(t, "small") == 0 // keeps products / chains inside int64 more often
	vals := make([]int64, n)
	for i := range vals {
		if small {
			vals[i] = rapid.Int64Range(-3000, 3000).Draw(t, "v")
		} else {
			vals[i] = genInt(t, "v")
		}
	}
	acc := bigOf(vals[0])
	for i := 1; i < n; i++ {
		st := intStep(fn, acc, bigOf(vals[i]))
		switch {
		case (fn == "divi" || fn == "modi") && vals[i] == 0:
			pbt.Exclude("divi/modi zero divisor (C08)")
			vals[i] = neutral(fn)
		case !st.ok:
			pbt.Exclude("integer result outside int64")
			vals[i] = neutral(fn)
		case st.ambiguous && n > 2:
			pbt.Exclude("divi/modi negative inexact step inside a chain")
			vals[i] = neutral(fn)
		}
		acc = intStep(fn, acc, bigOf(vals[i])).val
	}
	for i, v := range vals {
		c.Args = append(c.Args, mkArg(t, i, itoa(v), false))
	}
	return c
}

func isCanonInt(s string) bool { _, ok := canonInt(s); return ok }

func checkIntArith(c Case) error {
	if len(c.Args) < 2 {
		return fmt.Errorf("harness: %s needs 2+ arguments", c.Fn)
	}
	if bad, clear := firstNonNumeric(c.vals(), isCanonInt); bad >= 0 {
		if !clear {
			return nil // not generated
		}
		c.Obs.Label(true, "non-numeric")
		return checkNonNumeric(c, bad)
	}
	vals := make([]*big.Int, len(c.Args))
	for i := range c.Args {
		v, _ := canonInt(c.arg(i))
		vals[i] = bigOf(v)
	}
	acc := vals[0]
	ambiguous := false
	for i := 1; i < len(vals); i++ {
		if (c.Fn == "divi" || c.Fn == "modi") && vals[i].Sign() == 0 {
			return nil // not generated: zero divisor
		}
		st := intStep(c.Fn, acc, vals[i])
		if !st.ok {
			return nil // not generated: leaves int64
		}
		if st.ambiguous {
			if len(vals) > 2 {
				return nil
			}
			ambiguous = true
		}
		acc = st.val
	}
	r, err := evalClean(c)
	if err != nil {
		return err
	}
	got, ok := canonInt(r.out)
	if !ok {
		return fail(c, r, "result is not a canonical integer")
	}
	c.Obs.Label(acc.Sign() < 0, "result<0")
	c.Obs.Label(acc.Sign() == 0, "result=0")
	c.Obs.Label(acc.BitLen() > 53, "result>2^53")
	if !ambiguous {
		if bigOf(got).Cmp(acc) != 0 {
			return fail(c, r, "left fold of %s over the arguments is %s", c.Fn, acc)
		}
		return nil
	}
	// negative operand, inexact division: any rounding convention
	c.Obs.Label(true, "neg-inexact-division")
	a, b := vals[0], vals[1]
	g := bigOf(got)
	if c.Fn == "divi" {
		// |a - q*b| < |b|
		d := new(big.Int).Sub(a, new(big.Int).Mul(g, b))
		if d.CmpAbs(b) >= 0 {
			return fail(c, r, "quotient %s is a whole unit or more away from %s/%s", g, a, b)
		}
		return nil
	}
	// modi: |r| < |b| and b divides a - r
	if g.CmpAbs(b) >= 0 {
		return fail(c, r, "remainder %s is not smaller in magnitude than the divisor %s", g, b)
	}
	d := new(big.Int).Sub(a, g)
	if new(big.Int).Rem(d, b).Sign() != 0 {
		return fail(c, r, "%s - (%s) is not a multiple of %s", a, g, b)
	}
	return nil
}

func classifyIntArith(c Case) (bool, []string) {
	l := baseLabels(c)
	l.Add(len(c.Args) > 2, "arity>2")
	neg, big53, zero := false, false, false
	for _, v := range c.vals() {
		if n, ok := canonInt(v); ok {
			neg = neg || n < 0
			zero = zero || n == 0
			big53 = big53 || n > 1<<53 || n < -(1<<53)
		}
	}
	l.Add(neg, "arg<0")
	l.Add(zero, "arg=0")
	l.Add(big53, "arg>2^53")
	nt := neg || zero || big53 || len(c.Args) > 2 || c.Obs.Has("non-numeric")
	return nt, l
}

var specIntArith = pbt.Spec[Case]{
	Property: prop, Name: "int-arith",
	Rule:     "one call of sumi/subi/multi/divi/modi/maxi/mini with 2-5 canonical int64 arguments (boundaries, powers of 2/10 +-1, small) each supplied as constant, group or key; result compared with a big.Int left fold (negative inexact division: convention-free law); 1 in 12 cases has a non-numeric argument. Non-trivial: a negative, zero or >2^53 argument, arity>2, or a non-numeric argument",
	Budget:   pbt.Budget{Quick: 20000, Thorough: 160000},
	Gen:      genIntArith,
	Check:    checkIntArith,
	Classify: classifyIntArith,
}

func TestIntArith(t *testing.T) { pbt.Run(t, specIntArith) }
