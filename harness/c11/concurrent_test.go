// C11, "concurrent": the documented value of a helper call is what every
// extractor worker gets for ITS line while the other workers evaluate the
// same compiled expression on theirs. One compiled call per case, 2-8
// goroutines, each with its own values in the dynamic positions (the values
// of other generated calls of the same helper family); every result must
// equal what the same values give evaluated alone.
package c11

import (
	"fmt"
	"sync"
	"testing"

	"pgregory.net/rapid"
	"rare/pkg/expressions"
	"verifharness/pbt"
)

type ConcCase struct {
	Base   Case
	Others [][]pbt.S // per further goroutine: values for the dynamic (group/key) positions, in argument order
	Rounds int
	Obs    *pbt.Obs `json:"-"`
}

func ctxWith(c Case, dyn []pbt.S) (*expressions.KeyBuilderContextArray, error) {
	cc := Case{Fn: c.Fn, Args: append([]Arg(nil), c.Args...)}
	k := 0
	for i := range cc.Args {
		if cc.Args[i].Via != "const" {
			if k < len(dyn) {
				cc.Args[i].V = dyn[k]
			}
			k++
		}
	}
	b, err := build(cc)
	if err != nil {
		return nil, err
	}
	return b.ctx, nil
}

func checkConc(c ConcCase) error {
	resetGlobals()
	b, err := build(c.Base)
	if err != nil {
		return err
	}
	kb, _ := stdBuilder.Compile(b.tmpl)
	if kb == nil {
		pbt.Exclude("call does not compile (judged by the family sub-properties)")
		return nil
	}
	ctxs := []*expressions.KeyBuilderContextArray{b.ctx}
	for _, o := range c.Others {
		cx, err := ctxWith(c.Base, o)
		if err != nil {
			return err
		}
		ctxs = append(ctxs, cx)
	}
	want := make([]string, len(ctxs))
	distinct := map[string]bool{}
	for i, cx := range ctxs {
		want[i] = kb.BuildKey(cx)
		distinct[want[i]] = true
	}
	rounds := c.Rounds
	if rounds < 1 {
		rounds = 1
	}
	var wg sync.WaitGroup
	errs := make([]error, len(ctxs))
	start := make(chan struct{})
	for i := range ctxs {
		wg.Add(1)
		go func(i int) {
			defer wg.Done()
			<-start
			for r := 0; r < rounds; r++ {
				if got := kb.BuildKey(ctxs[i]); got != want[i] {
					errs[i] = fmt.Errorf("%s: goroutine %d of %d (round %d) got %q for its values %v; evaluated alone the same values give %q", b.tmpl, i, len(ctxs), r, got, ctxs[i].Elements, want[i])
					return
				}
			}
		}(i)
	}
	close(start)
	wg.Wait()
	for _, e := range errs {
		if e != nil {
			return e
		}
	}
	c.Obs.Label(len(distinct) >= 2, "goroutines-expect-different-values")
	c.Obs.Label(true, "fn:"+c.Base.Fn)
	return nil
}

var concFamilies = []func(*rapid.T) Case{genIntArith, genBucketing, genFloatFold, genRounding, genTranscend, genLogic, genCompare, genTyped, genLookup, genPath, genCSV, genNumFmt, genStrings}

func genConc(t *rapid.T) ConcCase {
	fam := concFamilies[rapid.IntRange(0, len(concFamilies)-1).Draw(t, "family")]
	base := fam(t)
	c := ConcCase{Base: base, Obs: pbt.NewObs()}
	nd := 0
	for _, a := range base.Args {
		if a.Via != "const" {
			nd++
		}
	}
	w := rapid.IntRange(1, 7).Draw(t, "others")
	for i := 0; i < w; i++ {
		// values of another generated call of the same family, position by position
		o := fam(t)
		var dyn []pbt.S
		for j := 0; j < nd; j++ {
			if len(o.Args) > 0 {
				dyn = append(dyn, o.Args[j%len(o.Args)].V)
			}
		}
		c.Others = append(c.Others, dyn)
	}
	c.Rounds = rapid.SampledFrom([]int{20, 100, 400}).Draw(t, "rounds")
	return c
}

func TestConcurrent(t *testing.T) {
	pbt.Run(t, pbt.Spec[ConcCase]{
		Property: prop, Name: "concurrent",
		Rule:   "one generated helper call (any family) compiled once; 2-8 goroutines evaluate it 20-400 times each with their own values in the group/key positions (taken from other generated calls of the same family), starting together; every result equals what the same values give evaluated alone. Non-trivial: >=1 dynamic position and goroutines expecting different values",
		Budget: pbt.Budget{Quick: 3000, Thorough: 60000},
		Gen:    genConc, Check: checkConc,
		Classify: func(c ConcCase) (bool, []string) {
			return c.Obs.Has("goroutines-expect-different-values"), c.Obs.All()
		},
	})
}
