package c11

import (
	"fmt"
	"strconv"
	"strings"
	"testing"
	"unicode"

	"pgregory.net/rapid"
	"verifharness/pbt"
)

// ---------- strings: len like prefix suffix substr select upper lower format tab
//
// Docs:
//   len: "Returns the length of the provided string. eg. the string of hello returns 5."
//   like/prefix/suffix: "Truthy check if a value contains a sub-value, starts with, or ends with"
//   substr: "Takes the substring of the first argument starting at pos for length"
//   select: "Assuming that {0} is a whitespace-separated value, split the
//            values and select the item at index 1. Eg. {select "ab cd ef" 1} will result in cd"
//   upper/lower: "Converts a string to all-upper or all-lower case"
//   format: "Formats a string based on fmt.Sprintf"
//   tab: "Concatenates the values of the arguments separated by a table character."
//
// Left open and not generated: non-ASCII for len/substr/upper/lower/format
// (bytes vs characters, Unicode case rules); like/prefix/suffix with an empty
// needle, a blank value, or a needle that matches only when case is ignored;
// substr with negative pos/length (pinned by a test, not by the docs);
// substr reaching past the end is only required to return a prefix of the
// remainder; select on text with quotes, NUL, leading/trailing blanks, other
// whitespace than space/tab/newline, index out of range; format verbs other
// than %s %Ns %-Ns %% and verb/argument count mismatches.

var asciiWords = []string{"hello", "a", "ab", "abc", "ABC", "aBc", "x-y_z", "Hello, World!", "12", "-5", "~", "a.b", "tab\there", "sp ace", "{0}", "}{", `"q"`, `\`, `\n`, "%s", "%", "z{a}", "MiXeD 123 cAsE", "\x01\x7f"}

func genASCII(t *rapid.T, label string) string {
	switch rapid.IntRange(0, 3).Draw(t, label+"-class") {
	case 0:
		return rapid.SampledFrom(asciiWords).Draw(t, label)
	case 1:
		return rapid.StringMatching(`[a-cA-C]{0,6}`).Draw(t, label)
	case 2:
		return rapid.StringOfN(rapid.RuneFrom(nil, asciiPrintable), 0, 12, -1).Draw(t, label)
	default:
		return rapid.StringOfN(rapid.RuneFrom([]rune("ab AB\t{}\"\\%n")), 0, 8, -1).Draw(t, label)
	}
}

var asciiPrintable = &unicode.RangeTable{R16: []unicode.Range16{{Lo: 0x20, Hi: 0x7e, Stride: 1}}}

func genStrings(t *rapid.T) Case {
	fn := rapid.SampledFrom([]string{"len", "like", "prefix", "suffix", "substr", "substr", "select", "select", "upper", "lower", "format", "tab"}).Draw(t, "fn")
	c := Case{Fn: fn, Obs: pbt.NewObs()}
	add := func(v string, constOnly bool) { c.Args = append(c.Args, mkArg(t, len(c.Args), v, constOnly)) }
	switch fn {
	case "len", "upper", "lower":
		add(genASCII(t, "s"), false)
	case "like", "prefix", "suffix":
		val := genASCII(t, "val")
		if blank(val) {
			val = "v" + val
		}
		var needle string
		switch rapid.IntRange(0, 3).Draw(t, "needle") {
		case 0:
			needle = genASCII(t, "n")
		default:
			// a real piece of val: front, back or middle
			i := rapid.IntRange(0, len(val)-1).Draw(t, "i")
			j := rapid.IntRange(i+1, len(val)).Draw(t, "j")
			switch rapid.IntRange(0, 2).Draw(t, "where") {
			case 0:
				needle = val[:j]
			case 1:
				needle = val[i:]
			default:
				needle = val[i:j]
			}
		}
		if needle == "" {
			pbt.Exclude("like/prefix/suffix empty needle")
			needle = "q"
		}
		if caseOnlyMatch(fn, val, needle) {
			pbt.Exclude("like/prefix/suffix match that differs only by case")
			needle = strings.ToLower(needle)
			val = strings.ToLower(val)
		}
		add(val, false)
		add(needle, false)
	case "substr":
		s := genASCII(t, "s")
		if rapid.IntRange(0, 19).Draw(t, "nonnumeric") == 0 && s != "" {
			add(s, false)
			add(genNonNumeric(t, "nn"), false)
			add("1", false)
			if rapid.Bool().Draw(t, "swap") {
				c.Args[1], c.Args[2] = c.Args[2], c.Args[1]
			}
			return c
		}
		pos := rapid.IntRange(0, len(s)).Draw(t, "pos")
		length := strconv.Itoa(rapid.IntRange(0, len(s)+2).Draw(t, "len"))
		if rapid.IntRange(0, 7).Draw(t, "toTheEnd") == 0 {
			// "to the end of the text": a length far beyond it
			length = rapid.SampledFrom([]string{"1000000", "2147483647", "2147483648", "4611686018427387904", "9223372036854775806", "9223372036854775807"}).Draw(t, "hugeLen")
		}
		add(s, false)
		add(strconv.Itoa(pos), false)
		add(length, false)
	case "select":
		n := rapid.IntRange(1, 5).Draw(t, "words")
		var sb strings.Builder
		for i := 0; i < n; i++ {
			if i > 0 {
				sb.WriteString(rapid.SampledFrom([]string{" ", " ", " ", "  ", "\t", "\n", " \t ", "   "}).Draw(t, "sep"))
			}
			sb.WriteString(rapid.SampledFrom([]string{"ab", "cd", "ef", "x", "1", "-2", "é", "日本", "a,b", "k=v", "{z}", `b\s`, "%d", "[10/Oct/2000:13:55:36", "GET"}).Draw(t, "w"))
		}
		if rapid.IntRange(0, 19).Draw(t, "nonnumeric") == 0 {
			add(sb.String(), false)
			add(genNonNumeric(t, "nn"), false)
			return c
		}
		add(sb.String(), false)
		add(strconv.Itoa(rapid.IntRange(0, n-1).Draw(t, "idx")), false)
	case "format":
		nverbs := rapid.IntRange(0, 3).Draw(t, "verbs")
		var sb strings.Builder
		lit := func() {
			sb.WriteString(rapid.SampledFrom([]string{"", "", " ", "-", "x=", ": ", "%%", "[", "] ", "100%% "}).Draw(t, "lit"))
		}
		lit()
		for i := 0; i < nverbs; i++ {
			switch rapid.IntRange(0, 2).Draw(t, "verb") {
			case 0:
				sb.WriteString("%s")
			case 1:
				sb.WriteString("%" + strconv.Itoa(rapid.IntRange(1, 9).Draw(t, "w")) + "s")
			default:
				sb.WriteString("%-" + strconv.Itoa(rapid.IntRange(1, 9).Draw(t, "w")) + "s")
			}
			lit()
		}
		add(sb.String(), true)
		for i := 0; i < nverbs; i++ {
			add(genASCII(t, "arg"), false)
		}
	case "tab":
		n := rapid.IntRange(1, 5).Draw(t, "n")
		for i := 0; i < n; i++ {
			if rapid.IntRange(0, 4).Draw(t, "empty") == 0 {
				add("", false)
			} else {
				add(genASCII(t, "v"), false)
			}
		}
	}
	return c
}

func matches(fn, val, needle string) bool {
	switch fn {
	case "like":
		return strings.Contains(val, needle)
	case "prefix":
		return len(val) >= len(needle) && val[:len(needle)] == needle
	default:
		return len(val) >= len(needle) && val[len(val)-len(needle):] == needle
	}
}

func caseOnlyMatch(fn, val, needle string) bool {
	return matches(fn, val, needle) != matches(fn, strings.ToLower(val), strings.ToLower(needle))
}

func asciiUpper(s string) string {
	b := []byte(s)
	for i, ch := range b {
		if ch >= 'a' && ch <= 'z' {
			b[i] = ch - 32
		}
	}
	return string(b)
}

func asciiLower(s string) string {
	b := []byte(s)
	for i, ch := range b {
		if ch >= 'A' && ch <= 'Z' {
			b[i] = ch + 32
		}
	}
	return string(b)
}

// refFormat: %s, %Ns (right-aligned in N), %-Ns (left-aligned), %%.
func refFormat(f string, args []string) (string, bool) {
	var sb strings.Builder
	ai := 0
	for i := 0; i < len(f); i++ {
		if f[i] != '%' {
			sb.WriteByte(f[i])
			continue
		}
		i++
		if i >= len(f) {
			return "", false
		}
		if f[i] == '%' {
			sb.WriteByte('%')
			continue
		}
		left := false
		if f[i] == '-' {
			left = true
			i++
		}
		w := 0
		for i < len(f) && f[i] >= '0' && f[i] <= '9' {
			w = w*10 + int(f[i]-'0')
			i++
		}
		if i >= len(f) || f[i] != 's' || ai >= len(args) {
			return "", false
		}
		a := args[ai]
		ai++
		pad := ""
		if len(a) < w {
			pad = strings.Repeat(" ", w-len(a))
		}
		if left {
			sb.WriteString(a + pad)
		} else {
			sb.WriteString(pad + a)
		}
	}
	return sb.String(), ai == len(args)
}

// splitWords: the documented "whitespace-separated value".
func splitWords(s string) ([]string, bool) {
	if s == "" || strings.ContainsAny(s, "\"\x00\r\v\f") {
		return nil, false
	}
	isWS := func(b byte) bool { return b == ' ' || b == '\t' || b == '\n' }
	if isWS(s[0]) || isWS(s[len(s)-1]) {
		return nil, false
	}
	var words []string
	start := -1
	for i := 0; i < len(s); i++ {
		if isWS(s[i]) {
			if start >= 0 {
				words = append(words, s[start:i])
				start = -1
			}
		} else if start < 0 {
			start = i
		}
	}
	if start >= 0 {
		words = append(words, s[start:])
	}
	for _, r := range s {
		if r > 0x7f && (r == 0x85 || r == 0xa0 || r == 0x1680 || (r >= 0x2000 && r <= 0x200a) || r == 0x2028 || r == 0x2029 || r == 0x202f || r == 0x205f || r == 0x3000 || r == 0xfffd) {
			return nil, false
		}
	}
	return words, true
}

func checkStrings(c Case) error {
	v := c.vals()
	switch c.Fn {
	case "len", "upper", "lower":
		if len(v) != 1 || !asciiOnly(v[0]) {
			return nil
		}
		r, err := evalClean(c)
		if err != nil {
			return err
		}
		c.Obs.Label(v[0] == "", "empty")
		switch c.Fn {
		case "len":
			return wantExact(c, r, strconv.Itoa(len(v[0])))
		case "upper":
			c.Obs.Label(asciiUpper(v[0]) != v[0], "changes")
			return wantExact(c, r, asciiUpper(v[0]))
		default:
			c.Obs.Label(asciiLower(v[0]) != v[0], "changes")
			return wantExact(c, r, asciiLower(v[0]))
		}
	case "like", "prefix", "suffix":
		if len(v) != 2 || blank(v[0]) || v[1] == "" || caseOnlyMatch(c.Fn, v[0], v[1]) {
			return nil
		}
		r, err := evalClean(c)
		if err != nil {
			return err
		}
		m := matches(c.Fn, v[0], v[1])
		c.Obs.Label(m, "match")
		c.Obs.Label(!m && strings.Contains(v[0], v[1]), "contained-elsewhere")
		return wantTruth(c, r, m)
	case "substr":
		if len(v) != 3 || !asciiOnly(v[0]) {
			return nil
		}
		if bad, clear := firstNonNumeric(v[1:], isCanonInt); bad >= 0 {
			if !clear || v[0] == "" {
				return nil
			}
			c.Obs.Label(true, "non-numeric")
			return checkNonNumeric(c, bad+1)
		}
		pos, _ := canonInt(v[1])
		length, _ := canonInt(v[2])
		if pos < 0 || length < 0 || pos > int64(len(v[0])) {
			return nil // not generated
		}
		r, err := evalClean(c)
		if err != nil {
			return err
		}
		end := pos + length
		if length > int64(len(v[0])) { // also keeps pos+length from overflowing
			end = int64(len(v[0])) + 1
		}
		if end <= int64(len(v[0])) {
			c.Obs.Label(length == 0, "zero-length")
			c.Obs.Label(end == int64(len(v[0])), "reaches-end")
			c.Obs.Label(pos > 0, "pos>0")
			return wantExact(c, r, v[0][pos:end])
		}
		c.Obs.Label(true, "past-end")
		c.Obs.Label(length > 1<<31, "astronomic-length")
		// a length reaching beyond the text takes what is there: the rest of the text from pos
		return wantExact(c, r, v[0][pos:])
	case "select":
		if len(v) != 2 {
			return nil
		}
		words, ok := splitWords(v[0])
		if !ok {
			return nil
		}
		if !isCanonInt(v[1]) {
			if !clearlyNonNumeric(v[1]) {
				return nil
			}
			c.Obs.Label(true, "non-numeric")
			return checkNonNumeric(c, 1)
		}
		idx, _ := canonInt(v[1])
		if idx < 0 || idx >= int64(len(words)) {
			return nil // not generated
		}
		r, err := evalClean(c)
		if err != nil {
			return err
		}
		c.Obs.Label(idx == int64(len(words))-1, "last-word")
		c.Obs.Label(idx == 0, "first-word")
		c.Obs.Label(strings.Contains(v[0], "  ") || strings.ContainsAny(v[0], "\t\n"), "wide-separator")
		return wantExact(c, r, words[idx])
	case "format":
		if len(v) < 1 {
			return nil
		}
		for _, a := range v {
			if !asciiOnly(a) {
				return nil
			}
		}
		want, ok := refFormat(v[0], v[1:])
		if !ok {
			return nil // not generated
		}
		r, err := evalClean(c)
		if err != nil {
			return err
		}
		c.Obs.Label(strings.Contains(v[0], "%%"), "percent-literal")
		c.Obs.Label(strings.Contains(v[0], "%-"), "left-align")
		c.Obs.Label(len(v) > 2, "multi-verb")
		return wantExact(c, r, want)
	case "tab":
		if len(v) < 1 {
			return nil
		}
		r, err := evalClean(c)
		if err != nil {
			return err
		}
		c.Obs.Label(len(v) == 1, "single")
		return wantExact(c, r, strings.Join(v, "\t"))
	}
	return fmt.Errorf("harness: unknown fn %s", c.Fn)
}

func classifyStrings(c Case) (bool, []string) {
	l := baseLabels(c)
	special := false
	for _, v := range c.vals() {
		if strings.ContainsAny(v, "{}\"\\ \t\n") {
			special = true
		}
	}
	l.Add(special, "syntax-chars-in-arg")
	return true, l
}

var specStrings = pbt.Spec[Case]{
	Property: prop, Name: "strings",
	Rule:     "len/upper/lower on ASCII text (incl. braces, quotes, backslashes, control bytes), like/prefix/suffix with a needle cut from the value or independent, substr with 0<=pos<=len and 0<=length<=len+2, select on 1-5 words joined by runs of space/tab/newline with an in-range index, format with %s/%Ns/%-Ns/%% and matching argument count, tab of 1-5 values; each argument via constant/group/key; exact reference implementations written from the docs. Every case non-trivial",
	Budget:   pbt.Budget{Quick: 25000, Thorough: 200000},
	Gen:      genStrings,
	Check:    checkStrings,
	Classify: classifyStrings,
}

func TestStrings(t *testing.T) { pbt.Run(t, specStrings) }
