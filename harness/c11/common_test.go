// C11 — scalar helper functions follow their documented semantics.
//
// One sub-property (pbt.Spec) per helper family. Every case is one helper
// call `{fn a0 a1 ...}`; each argument is supplied either as a template
// constant (escaped by the printer below) or through the evaluation context
// (numbered match group `{i}` or named key `{kN}`). The oracles are written
// from /repo/docs/usage/expressions.md and the property statement; input
// classes the documentation leaves open are not generated (pbt.Exclude counts
// them where a generator had to step around one).
package c11

import (
	"fmt"
	"math"
	"math/big"
	"strconv"
	"strings"
	"unicode"
	"unicode/utf8"

	"pgregory.net/rapid"
	"rare/pkg/expressions"
	"rare/pkg/expressions/stdlib"
	"rare/pkg/humanize"
	"verifharness/pbt"
)

const prop = "C11"

// Arg is one argument of the helper call.
type Arg struct {
	V   pbt.S
	Via string // const | group | key
}

// Case is one helper call.
type Case struct {
	Fn   string
	Args []Arg
	Obs  *pbt.Obs `json:"-"`
}

func (c Case) arg(i int) string { return string(c.Args[i].V) }

func (c Case) vals() []string {
	out := make([]string, len(c.Args))
	for i := range c.Args {
		out[i] = string(c.Args[i].V)
	}
	return out
}

// ---------- printer ----------------------------------------------------------

// A constant argument passes three unescaping layers (outer compiler,
// argument splitter, nested compiler), so a literal special character needs
// 2^3-1 = 7 backslashes in front of it (DESIGN §5.3). Letters n, r, t are
// never preceded by an odd run of backslashes, so the \n \r \t escapes cannot
// be produced by accident.
func escConst(s string) string {
	if s == "" {
		return `""`
	}
	var sb strings.Builder
	for _, r := range s {
		if r == '{' || r == '}' || r == '"' || r == '\\' || unicode.IsSpace(r) {
			sb.WriteString(`\\\\\\\`)
		}
		sb.WriteRune(r)
	}
	return sb.String()
}

// constOK: a value can be written as a template constant only if it is valid
// UTF-8 (the compiler works on runes) and holds no U+FFFD look-alike issue.
func constOK(s string) bool { return utf8.ValidString(s) }

type built struct {
	tmpl string
	ctx  *expressions.KeyBuilderContextArray
}

func build(c Case) (built, error) {
	var sb strings.Builder
	ctx := &expressions.KeyBuilderContextArray{Keys: map[string]string{}}
	sb.WriteString("{")
	sb.WriteString(c.Fn)
	for i, a := range c.Args {
		sb.WriteByte(' ')
		switch a.Via {
		case "const":
			if !constOK(string(a.V)) {
				return built{}, fmt.Errorf("harness: argument %d is not valid UTF-8 and cannot be a constant", i)
			}
			sb.WriteString(escConst(string(a.V)))
		case "group":
			sb.WriteString("{" + strconv.Itoa(len(ctx.Elements)) + "}")
			ctx.Elements = append(ctx.Elements, string(a.V))
		case "key":
			k := "k" + strconv.Itoa(i)
			sb.WriteString("{" + k + "}")
			ctx.Keys[k] = string(a.V)
		default:
			return built{}, fmt.Errorf("harness: unknown Via %q", a.Via)
		}
	}
	sb.WriteString("}")
	return built{sb.String(), ctx}, nil
}

// the standard builder every command uses (function table + auto-optimise);
// compiling does not modify it, so one instance serves all cases.
var stdBuilder = stdlib.NewStdKeyBuilder()

type result struct {
	tmpl     string
	out      string
	compiled bool  // a CompiledKeyBuilder was returned
	cerr     error // compile error(s), nil when clean
}

func resetGlobals() {
	humanize.Enabled = true
	humanize.Decimals = 4
	stdlib.DisableLoad = false
}

// eval compiles and evaluates the call with rare's standard key builder, the
// way every command does (auto-optimising builder).
func eval(c Case) (result, error) {
	resetGlobals()
	b, err := build(c)
	if err != nil {
		return result{}, err
	}
	kb, cerrs := stdBuilder.Compile(b.tmpl)
	r := result{tmpl: b.tmpl}
	if cerrs != nil {
		r.cerr = cerrs
	}
	if kb != nil {
		r.compiled = true
		r.out = kb.BuildKey(b.ctx)
		// a compiled expression is reusable: the second evaluation must agree
		if again := kb.BuildKey(b.ctx); again != r.out {
			return r, fmt.Errorf("%s: second evaluation differs: %q then %q", b.tmpl, r.out, again)
		}
	}
	return r, nil
}

// evalClean is eval for calls that must compile without error.
func evalClean(c Case) (result, error) {
	r, err := eval(c)
	if err != nil {
		return r, err
	}
	if r.cerr != nil {
		return r, fmt.Errorf("%s with %s: unexpected compile error: %v", r.tmpl, showArgs(c), r.cerr)
	}
	if !r.compiled {
		return r, fmt.Errorf("%s: no compiled expression returned", r.tmpl)
	}
	return r, nil
}

func showArgs(c Case) string {
	var parts []string
	for _, a := range c.Args {
		parts = append(parts, a.Via+":"+strconv.Quote(string(a.V)))
	}
	return "[" + strings.Join(parts, " ") + "]"
}

func fail(c Case, r result, format string, a ...any) error {
	return fmt.Errorf("%s %s -> %q: %s", r.tmpl, showArgs(c), r.out, fmt.Sprintf(format, a...))
}

// ---------- documented vocabulary -------------------------------------------

// "Truthiness is the presence of a value. False is an empty value (or only
// whitespace)". The generators only ever produce space, tab, newline and CR
// as whitespace, so this is the whole definition on the generated domain.
func truthy(s string) bool {
	return strings.Trim(s, " \t\n\r\v\f") != "" // ASCII white space (the six characters every definition agrees on)
}

func blank(s string) bool { return !truthy(s) }

// markers of the "Errors" table of the documentation.
var allMarkers = []string{"<BAD-TYPE>", "<PARSE-ERROR>", "<ARGN>", "<CONST>", "<ENUM>", "<NAME>", "<EMPTY>", "<FILE>", "<VALUE>"}

// isBadValueMarker: the markers that can describe "this value is not a
// number": Type, Parsing, Value; Empty only for an empty input.
func isBadValueMarker(out string, emptyInput bool) bool {
	switch out {
	case "<BAD-TYPE>", "<PARSE-ERROR>", "<VALUE>":
		return true
	case "<EMPTY>":
		return emptyInput
	}
	return false
}

// checkNonNumeric is the oracle for "Non-numeric input yields the documented
// error marker, never a wrong number": either the expression is rejected at
// compile time, or it evaluates to a marker. Whatever is returned alongside a
// compile error must still not be a number.
func checkNonNumeric(c Case, badIdx int) error {
	r, err := eval(c)
	if err != nil {
		return err
	}
	empty := strings.TrimSpace(c.arg(badIdx)) == ""
	if r.cerr != nil {
		if c.Args[badIdx].Via != "const" {
			return fail(c, r, "compile error although the offending value is only known at run time: %v", r.cerr)
		}
		if r.compiled && !isBadValueMarker(r.out, empty) {
			return fail(c, r, "rejected at compile time (%v) but evaluates to something that is not an error marker", r.cerr)
		}
		return nil
	}
	if !r.compiled {
		return fail(c, r, "neither compiled nor rejected")
	}
	if !isBadValueMarker(r.out, empty) {
		return fail(c, r, "argument %d (%q) is not a number: want an error marker (<BAD-TYPE>), got %q", badIdx, c.arg(badIdx), r.out)
	}
	return nil
}

// ---------- number pools -------------------------------------------------------

var boundaryInts = []int64{0, 1, -1, 2, -2, 9, 10, 11, 99, 100, 101, 999, 1000, 1001, -9, -10, -99, -100, -999, -1000, -1001,
	1023, 1024, 1025, 999999, 1000000, 1 << 20, 1<<31 - 1, 1 << 31, -(1 << 31), 1<<31 + 1, 1<<53 - 1, 1 << 53, 1<<53 + 1, -(1 << 53),
	math.MaxInt64, math.MaxInt64 - 1, math.MinInt64, math.MinInt64 + 1, 1 << 62, -(1 << 62)}

func pow10i(k int) int64 {
	p := int64(1)
	for i := 0; i < k; i++ {
		p *= 10
	}
	return p
}

// genInt draws an int64 from a mixture that favours the breakpoints of the
// helpers: boundaries, small values, powers of 10 / 2 / 1000 / 1024 +-1.
func genInt(t *rapid.T, label string) int64 {
	switch rapid.IntRange(0, 9).Draw(t, label+"-class") {
	case 0, 1:
		return rapid.SampledFrom(boundaryInts).Draw(t, label)
	case 2, 3:
		return rapid.Int64Range(-200, 200).Draw(t, label)
	case 4:
		return rapid.Int64().Draw(t, label)
	case 5:
		k := rapid.IntRange(0, 18).Draw(t, label+"-p10")
		d := rapid.Int64Range(-1, 1).Draw(t, label+"-d")
		v := pow10i(k) + d
		if rapid.Bool().Draw(t, label+"-neg") {
			v = -v
		}
		return v
	case 6:
		k := rapid.IntRange(0, 62).Draw(t, label+"-p2")
		d := rapid.Int64Range(-1, 1).Draw(t, label+"-d")
		v := int64(1)<<uint(k) + d
		if rapid.Bool().Draw(t, label+"-neg") {
			v = -v
		}
		return v
	case 7:
		// m * step^k + d
		step := rapid.SampledFrom([]int64{1000, 1024}).Draw(t, label+"-step")
		k := rapid.IntRange(1, 5).Draw(t, label+"-k")
		m := rapid.Int64Range(1, 1100).Draw(t, label+"-m")
		d := rapid.Int64Range(-2, 2).Draw(t, label+"-d")
		v := int64(1)
		for i := 0; i < k; i++ {
			v *= step
		}
		v = v*m + d
		if rapid.Bool().Draw(t, label+"-neg") {
			v = -v
		}
		return v
	case 8:
		return rapid.Int64Range(-100000, 100000).Draw(t, label)
	default:
		// uniform digit count
		k := rapid.IntRange(1, 18).Draw(t, label+"-digits")
		lo := pow10i(k - 1)
		v := rapid.Int64Range(lo, lo*10-1).Draw(t, label)
		if rapid.Bool().Draw(t, label+"-neg") {
			v = -v
		}
		return v
	}
}

func itoa(v int64) string { return strconv.FormatInt(v, 10) }

func bigOf(v int64) *big.Int { return big.NewInt(v) }

var (
	bigMin = big.NewInt(math.MinInt64)
	bigMax = big.NewInt(math.MaxInt64)
)

func fits64(b *big.Int) bool { return b.Cmp(bigMin) >= 0 && b.Cmp(bigMax) <= 0 }

// canonInt parses the canonical decimal spelling of an int64 (no sign for
// non-negatives, no leading zeros); everything else is "not generated here".
func canonInt(s string) (int64, bool) {
	v, err := strconv.ParseInt(s, 10, 64)
	if err != nil || itoa(v) != s {
		return 0, false
	}
	return v, true
}

// decStr writes mantissa / 10^scale as a plain decimal ("-12.345", "0.05").
func decStr(m int64, scale int) string {
	neg := m < 0
	u := new(big.Int).Abs(big.NewInt(m)).String()
	if scale > 0 {
		for len(u) <= scale {
			u = "0" + u
		}
		u = u[:len(u)-scale] + "." + u[len(u)-scale:]
	}
	if neg {
		u = "-" + u
	}
	return u
}

// genDec draws a plain decimal string with at most 15 significant digits, so
// that reading it as float64 loses less than 1.2e-16 relative.
func genDec(t *rapid.T, label string) string {
	switch rapid.IntRange(0, 9).Draw(t, label+"-class") {
	case 0:
		return rapid.SampledFrom([]string{"0", "0.0", "1", "-1", "0.5", "-0.5", "1.5", "2.5", "-2.5", "0.1", "0.25", "100", "1000", "999.99995", "999.99999", "-999.99999", "999999.99999", "0.00005", "0.00004", "123.765", "1000.0", "0.1234", "12345.123512", "999.5", "-999.5", "99.95"}).Draw(t, label)
	case 1, 2:
		return itoa(rapid.Int64Range(-100000, 100000).Draw(t, label))
	case 3:
		// right below / at / above a power of ten
		k := rapid.IntRange(0, 9).Draw(t, label+"-p10")
		sc := rapid.IntRange(1, 5).Draw(t, label+"-scale")
		d := rapid.Int64Range(-60, 60).Draw(t, label+"-d")
		m := pow10i(k+sc) + d
		if rapid.Bool().Draw(t, label+"-neg") {
			m = -m
		}
		return decStr(m, sc)
	default:
		digits := rapid.IntRange(1, 15).Draw(t, label+"-digits")
		lo := pow10i(digits - 1)
		m := rapid.Int64Range(lo, lo*10-1).Draw(t, label+"-mant")
		if rapid.IntRange(0, 2).Draw(t, label+"-neg") == 0 {
			m = -m
		}
		sc := rapid.IntRange(0, 8).Draw(t, label+"-scale")
		return decStr(m, sc)
	}
}

// ratOf returns the exact rational value of a decimal (or exponent) spelling.
func ratOf(s string) *big.Rat {
	r, ok := new(big.Rat).SetString(s)
	if !ok {
		panic("harness: not a decimal: " + s)
	}
	return r
}

func ratF(f float64) *big.Rat { return new(big.Rat).SetFloat64(f) }

func absRat(r *big.Rat) *big.Rat { return new(big.Rat).Abs(r) }

// plainNumber: what a numeric helper may print: optional sign, digits,
// optional fraction, optional exponent.
func plainNumber(s string) bool {
	i := 0
	if i < len(s) && (s[i] == '-' || s[i] == '+') {
		i++
	}
	d := 0
	for i < len(s) && s[i] >= '0' && s[i] <= '9' {
		i++
		d++
	}
	if d == 0 {
		return false
	}
	if i < len(s) && s[i] == '.' {
		i++
		f := 0
		for i < len(s) && s[i] >= '0' && s[i] <= '9' {
			i++
			f++
		}
		if f == 0 {
			return false
		}
	}
	if i < len(s) && (s[i] == 'e' || s[i] == 'E') {
		i++
		if i < len(s) && (s[i] == '-' || s[i] == '+') {
			i++
		}
		e := 0
		for i < len(s) && s[i] >= '0' && s[i] <= '9' {
			i++
			e++
		}
		if e == 0 {
			return false
		}
	}
	return i == len(s)
}

// decimalsOf counts the digits after the point of a plain decimal.
func decimalsOf(s string) int {
	if i := strings.IndexByte(s, '.'); i >= 0 {
		return len(s) - i - 1
	}
	return 0
}

// ratPow10(-d)
func ratUnit(decimals int) *big.Rat {
	den := new(big.Int).Exp(big.NewInt(10), big.NewInt(int64(decimals)), nil)
	return new(big.Rat).SetFrac(big.NewInt(1), den)
}

// ---------- non-numeric pool ----------------------------------------------------

// Strings with no numeric reading under any convention: they hold a character
// that appears in no integer, decimal, exponent, hex, infinity or NaN
// spelling — or they are empty, or consist of signs / points / underscores only.
var nonNumericFixed = []string{"-", "+", "-", "--", "+-", ".", "-.", "_", "", "k", "12k", "k12", "#", "1;2", "zz top", "five", "$5", "12:30", "ten%", "[1]", "~1", "1h", "ü", "1\x002", "1\tq", "<BAD-TYPE>", "NULL", "-k"}

// numericAlphabet holds every character that occurs in some numeric spelling
// (decimal, exponent, hex float, digit separators, inf/infinity/nan, padding).
const numericAlphabet = "0123456789+-._ \t\n\r" + "abcdefABCDEF" + "xXpP" + "iInNfFtTyY"

// clearlyNonNumeric: empty, or holding a character outside numericAlphabet.
// Only such values are asserted to produce the error marker.
func clearlyNonNumeric(s string) bool {
	if s == "" {
		return true
	}
	// no digit and no letter: a lone sign, point or separator ("-" is the
	// usual access-log placeholder for "no value") spells no number
	if !strings.ContainsAny(s, "0123456789") && strings.Trim(s, "+-._") == "" {
		return true
	}
	for _, r := range s {
		if r >= 0x80 || !strings.ContainsRune(numericAlphabet, r) {
			return true
		}
	}
	return false
}

// firstNonNumeric returns the index of the first argument that is not in the
// helper's numeric domain (-1 if none) and whether that argument is clearly
// non-numeric (if not, the case is outside the generated domain).
func firstNonNumeric(vals []string, numeric func(string) bool) (idx int, clear bool) {
	for i, v := range vals {
		if !numeric(v) {
			return i, clearlyNonNumeric(v)
		}
	}
	return -1, false
}

func genNonNumeric(t *rapid.T, label string) string {
	if rapid.IntRange(0, 2).Draw(t, label+"-class") == 0 {
		core := rapid.SampledFrom([]string{"g", "h", "k", "q", "z", "w", "#", ";", "~", "$"}).Draw(t, label+"-core")
		pre := rapid.StringMatching(`[0-9a-z.\-]{0,4}`).Draw(t, label+"-pre")
		post := rapid.StringMatching(`[0-9a-z.\-]{0,4}`).Draw(t, label+"-post")
		return pre + core + post
	}
	return rapid.SampledFrom(nonNumericFixed).Draw(t, label)
}

// ---------- argument plumbing -------------------------------------------------

// genVia picks how an argument reaches the helper.
func genVia(t *rapid.T, label, v string, constOnly bool) string {
	if constOnly {
		return "const"
	}
	if !constOK(v) {
		if rapid.Bool().Draw(t, label+"-via") {
			return "group"
		}
		return "key"
	}
	switch rapid.IntRange(0, 4).Draw(t, label+"-via") {
	case 0, 1:
		return "const"
	case 2, 3:
		return "group"
	default:
		return "key"
	}
}

func mkArg(t *rapid.T, i int, v string, constOnly bool) Arg {
	return Arg{V: pbt.S(v), Via: genVia(t, "a"+strconv.Itoa(i), v, constOnly)}
}

func konst(v string) Arg { return Arg{V: pbt.S(v), Via: "const"} }
func group(v string) Arg { return Arg{V: pbt.S(v), Via: "group"} }

// viaLabel summarises how the arguments were supplied.
func viaLabel(c Case) string {
	nc, ng := 0, 0
	for _, a := range c.Args {
		if a.Via == "const" {
			nc++
		} else {
			ng++
		}
	}
	switch {
	case ng == 0:
		return "via:all-const"
	case nc == 0:
		return "via:all-context"
	default:
		return "via:mixed"
	}
}

func baseLabels(c Case) pbt.Labels {
	l := pbt.Labels{"fn:" + c.Fn, viaLabel(c)}
	l = append(l, c.Obs.All()...)
	return l
}

func asciiOnly(s string) bool {
	for i := 0; i < len(s); i++ {
		if s[i] >= 0x80 {
			return false
		}
	}
	return true
}
