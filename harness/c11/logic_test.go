package c11

import (
	"fmt"
	"strings"
	"testing"

	"pgregory.net/rapid"
	"verifharness/pbt"
)

// ---------- comparison and logic ----------------------------------------------
//
// Docs: "Truthiness is the presence of a value. False is an empty value (or
// only whitespace)".
//   eq:  If a == b,  will return "1", otherwise ""
//   neq: If a != b,  will return "1", otherwise ""
//   not: If a == "", will return "1", otherwise ""
//   and: All arguments need to be truthy / or: At least one argument ...
//   {if val ifTrue ifFalse}, {if val ifTrue}, {unless val ifFalse}
//   {switch ifTrue val ifTrue val ... [ifFalseVal]} ... "Otherwise, empty
//   string is returned."
//   coalesce: "choosing the first non-empty result"
//   lt gt lte gte: "Uses truthy-logic to compare two integers"
//   isint/isnum: "Returns truthy if the val is an integer (isint), or a
//   floating point (isnum)"
//
// Left open and not generated: whitespace-only arguments of and/or/not/
// coalesce (the function text says `== ""`/"non-empty", the general rule says
// whitespace is false); eq/neq on two different spellings of one number or on
// two different blank strings; lt..gte beyond +-2^53 or on non-integers;
// isint/isnum on spellings like "+5", "007", "1.0" (isint), ".5", "5.",
// "inf", "nan", hex, "_", and integers outside int64.

var wordPool = []string{"a", "b", "abc", "0", "1", "-1", "false", "x y", "é", "A", "<BAD-TYPE>", "00", "12", "1.0", "{0}", `q"uote`, `back\slash`}
var blankPool = []string{"", "", "", " ", "  ", "\t", " \n ", "\v", "\f", " \v\f ", "\r\n"}

func genWord(t *rapid.T, label string) string {
	switch rapid.IntRange(0, 5).Draw(t, label+"-class") {
	case 0:
		return rapid.StringMatching(`[a-c]{1,3}`).Draw(t, label)
	case 1:
		return itoa(rapid.Int64Range(-20, 20).Draw(t, label))
	default:
		return rapid.SampledFrom(wordPool).Draw(t, label)
	}
}

// genTruthArg: a condition value: truthy word, empty, or (if allowed) whitespace-only.
func genTruthArg(t *rapid.T, label string, allowBlank bool) string {
	switch rapid.IntRange(0, 5).Draw(t, label+"-truth") {
	case 0, 1:
		return ""
	case 2:
		if allowBlank {
			return rapid.SampledFrom(blankPool).Draw(t, label+"-blank")
		}
		return ""
	default:
		return genWord(t, label)
	}
}

var logicFns = []string{"eq", "neq", "not", "and", "or", "if", "unless", "switch", "coalesce"}

func genLogic(t *rapid.T) Case {
	fn := rapid.SampledFrom(logicFns).Draw(t, "fn")
	c := Case{Fn: fn, Obs: pbt.NewObs()}
	add := func(v string) { c.Args = append(c.Args, mkArg(t, len(c.Args), v, false)) }
	switch fn {
	case "eq", "neq":
		a := genTruthArg(t, "a", true)
		b := a
		if rapid.Bool().Draw(t, "differ") {
			b = genTruthArg(t, "b", true)
		}
		if a != b {
			if blank(a) && blank(b) {
				pbt.Exclude("eq/neq of two different blank strings")
				b = a
			} else if isPlainDecOrInt(a) && isPlainDecOrInt(b) && ratOf(a).Cmp(ratOf(b)) == 0 {
				pbt.Exclude("eq/neq of two spellings of one number")
				b = a
			}
		}
		add(a)
		add(b)
	case "not":
		add(genTruthArg(t, "a", false))
	case "and", "or":
		n := rapid.IntRange(1, 5).Draw(t, "n")
		for i := 0; i < n; i++ {
			add(genTruthArg(t, "a", false))
		}
	case "if":
		add(genTruthArg(t, "cond", true))
		add(genWord(t, "then"))
		if rapid.Bool().Draw(t, "else") {
			add(genTruthArg(t, "else", true))
		}
	case "unless":
		add(genTruthArg(t, "cond", true))
		add(genWord(t, "then"))
	case "switch":
		pairs := rapid.IntRange(1, 4).Draw(t, "pairs")
		for i := 0; i < pairs; i++ {
			add(genTruthArg(t, "cond", true))
			add(genWord(t, "val") + itoa(int64(i)))
		}
		if rapid.Bool().Draw(t, "else") {
			add(genWord(t, "else") + "E")
		}
	case "coalesce":
		n := rapid.IntRange(1, 5).Draw(t, "n")
		for i := 0; i < n; i++ {
			add(genTruthArg(t, "a", false))
		}
	}
	return c
}

func isPlainDecOrInt(s string) bool { return isPlainDec(s) }

func wantTruth(c Case, r result, want bool) error {
	if truthy(r.out) != want {
		return fail(c, r, "want a %s result", map[bool]string{true: "truthy", false: "falsy (empty)"}[want])
	}
	return nil
}

func wantExact(c Case, r result, want string) error {
	if r.out != want {
		return fail(c, r, "want %q", want)
	}
	return nil
}

func b2s(b bool) string {
	if b {
		return "1"
	}
	return ""
}

func checkLogic(c Case) error {
	v := c.vals()
	switch c.Fn {
	case "eq", "neq":
		if len(v) != 2 {
			return nil
		}
		if v[0] != v[1] && ((blank(v[0]) && blank(v[1])) || (isPlainDec(v[0]) && isPlainDec(v[1]) && ratOf(v[0]).Cmp(ratOf(v[1])) == 0)) {
			return nil // not generated
		}
	case "not", "and", "or", "coalesce":
		for _, a := range v {
			if a != "" && blank(a) {
				return nil // not generated
			}
		}
	}
	r, err := evalClean(c)
	if err != nil {
		return err
	}
	switch c.Fn {
	case "eq":
		c.Obs.Label(v[0] == v[1], "equal")
		return wantExact(c, r, b2s(v[0] == v[1]))
	case "neq":
		c.Obs.Label(v[0] == v[1], "equal")
		return wantExact(c, r, b2s(v[0] != v[1]))
	case "not":
		c.Obs.Label(v[0] == "", "empty")
		return wantExact(c, r, b2s(v[0] == ""))
	case "and":
		all := true
		for _, a := range v {
			all = all && truthy(a)
		}
		c.Obs.Label(all, "true")
		return wantTruth(c, r, all)
	case "or":
		any := false
		for _, a := range v {
			any = any || truthy(a)
		}
		c.Obs.Label(any, "true")
		return wantTruth(c, r, any)
	case "if":
		c.Obs.Label(truthy(v[0]), "true")
		c.Obs.Label(v[0] != "" && blank(v[0]), "whitespace-condition")
		if truthy(v[0]) {
			return wantExact(c, r, v[1])
		}
		if len(v) == 3 {
			return wantExact(c, r, v[2])
		}
		return wantTruth(c, r, false)
	case "unless":
		c.Obs.Label(truthy(v[0]), "true")
		c.Obs.Label(v[0] != "" && blank(v[0]), "whitespace-condition")
		if !truthy(v[0]) {
			return wantExact(c, r, v[1])
		}
		return wantTruth(c, r, false)
	case "switch":
		for i := 0; i+1 < len(v); i += 2 {
			c.Obs.Label(v[i] != "" && blank(v[i]), "whitespace-condition")
			if truthy(v[i]) {
				c.Obs.Label(i > 0, "later-branch")
				return wantExact(c, r, v[i+1])
			}
		}
		if len(v)%2 == 1 {
			c.Obs.Label(true, "else-branch")
			return wantExact(c, r, v[len(v)-1])
		}
		c.Obs.Label(true, "no-branch")
		return wantExact(c, r, "")
	case "coalesce":
		for i, a := range v {
			if a != "" {
				c.Obs.Label(i > 0, "skips-empty")
				return wantExact(c, r, a)
			}
		}
		c.Obs.Label(true, "all-empty")
		return wantExact(c, r, "")
	}
	return fmt.Errorf("harness: unknown fn %s", c.Fn)
}

func classifyLogic(c Case) (bool, []string) {
	l := baseLabels(c)
	empties := 0
	for _, v := range c.vals() {
		if blank(v) {
			empties++
		}
	}
	l.Add(empties > 0, "has-falsy-arg")
	l.Add(empties == len(c.Args), "all-falsy")
	return true, l
}

var specLogic = pbt.Spec[Case]{
	Property: prop, Name: "logic",
	Rule:     "eq/neq (2 args), not, and/or (1-5 args), if (2-3), unless, switch (1-4 pairs +- else), coalesce (1-5) over words, numbers, empty and (where the docs define it) whitespace-only values, via constant/group/key; oracle: the truthiness interpreter written from the docs, exact result where the docs name it. Every case is non-trivial; labels show branch taken",
	Budget:   pbt.Budget{Quick: 20000, Thorough: 160000},
	Gen:      genLogic,
	Check:    checkLogic,
	Classify: classifyLogic,
}

func TestLogic(t *testing.T) { pbt.Run(t, specLogic) }

// ----- lt gt lte gte

const max53 = int64(1) << 53

func genCmpInt(t *rapid.T, label string) int64 {
	v := genInt(t, label)
	if v > max53 || v < -max53 {
		pbt.Exclude("lt..gte operand beyond 2^53")
		v %= max53
	}
	return v
}

func genCompare(t *rapid.T) Case {
	fn := rapid.SampledFrom([]string{"lt", "gt", "lte", "gte"}).Draw(t, "fn")
	c := Case{Fn: fn, Obs: pbt.NewObs()}
	if rapid.IntRange(0, 11).Draw(t, "nonnumeric") == 0 {
		a, b := genNonNumeric(t, "nn"), itoa(rapid.Int64Range(-5, 5).Draw(t, "ok"))
		if rapid.Bool().Draw(t, "swap") {
			a, b = b, a
		}
		c.Args = []Arg{mkArg(t, 0, a, false), mkArg(t, 1, b, false)}
		return c
	}
	a := genCmpInt(t, "a")
	var b int64
	switch rapid.IntRange(0, 3).Draw(t, "rel") {
	case 0:
		b = a
	case 1:
		b = a + rapid.Int64Range(-2, 2).Draw(t, "d")
		if b > max53 || b < -max53 {
			b = a
		}
	default:
		b = genCmpInt(t, "b")
	}
	// log fields are often zero-padded ("007"): rare reads integers in base 10 everywhere, so the padded
	// spelling denotes the same number (also when both operands come from the line)
	pad := func(v int64, label string) string {
		s := itoa(v)
		if v >= 0 && rapid.IntRange(0, 3).Draw(t, label) == 0 {
			s = strings.Repeat("0", rapid.IntRange(1, 3).Draw(t, label+"-n")) + s
		}
		return s
	}
	c.Args = []Arg{mkArg(t, 0, pad(a, "pad-a"), false), mkArg(t, 1, pad(b, "pad-b"), false)}
	return c
}

func checkCompare(c Case) error {
	if len(c.Args) != 2 {
		return fmt.Errorf("harness: comparison needs 2 arguments")
	}
	vals := c.vals()
	for i := range vals {
		if u, ok := unpad(vals[i]); ok {
			vals[i] = u
			c.Obs.Label(true, "zero-padded-operand")
		}
	}
	if bad, clear := firstNonNumeric(vals, isCanonInt); bad >= 0 {
		if !clear {
			return nil // not generated
		}
		c.Obs.Label(true, "non-numeric")
		return checkNonNumeric(c, bad)
	}
	a, _ := canonInt(vals[0])
	b, _ := canonInt(vals[1])
	if a > max53 || a < -max53 || b > max53 || b < -max53 {
		return nil // not generated
	}
	var want bool
	switch c.Fn {
	case "lt":
		want = a < b
	case "gt":
		want = a > b
	case "lte":
		want = a <= b
	case "gte":
		want = a >= b
	default:
		return fmt.Errorf("harness: unknown fn %s", c.Fn)
	}
	r, err := evalClean(c)
	if err != nil {
		return err
	}
	c.Obs.Label(a == b, "equal")
	c.Obs.Label(a != b && a-b <= 2 && b-a <= 2, "adjacent")
	c.Obs.Label((a < 0) != (b < 0), "mixed-sign")
	c.Obs.Label(want, "true")
	return wantTruth(c, r, want)
}

func classifyCompare(c Case) (bool, []string) {
	l := baseLabels(c)
	return true, l
}

var specCompare = pbt.Spec[Case]{
	Property: prop, Name: "compare",
	Rule:     "lt/gt/lte/gte on two integers with |v|<=2^53 (equal, adjacent +-1/+-2, independent; 1 in 4 non-negative operands zero-padded like a log field), via constant/group/key; truthiness of the result must equal the integer relation; 1 in 12 non-numeric. Every case non-trivial; labels: equal, adjacent, mixed-sign",
	Budget:   pbt.Budget{Quick: 12000, Thorough: 96000},
	Gen:      genCompare,
	Check:    checkCompare,
	Classify: classifyCompare,
}

func TestCompare(t *testing.T) { pbt.Run(t, specCompare) }

// ----- isint isnum

type numClass int

const (
	clsInt      numClass = iota // canonical int64
	clsDecimal                  // -?digits.digits, not integral spelling
	clsExponent                 // mantissa e exponent
	clsNone                     // no numeric reading at all
)

func genTyped(t *rapid.T) Case {
	fn := rapid.SampledFrom([]string{"isint", "isnum"}).Draw(t, "fn")
	c := Case{Fn: fn, Obs: pbt.NewObs()}
	var v string
	switch rapid.IntRange(0, 3).Draw(t, "class") {
	case 0:
		v = itoa(genInt(t, "i"))
	case 1:
		m := rapid.Int64Range(-999999999, 999999999).Draw(t, "m")
		sc := rapid.IntRange(1, 6).Draw(t, "s")
		v = decStr(m, sc)
		if strings.TrimRight(strings.Split(v, ".")[1], "0") == "" {
			// "12.000": integral value in decimal spelling is left open for isint
			v = v[:len(v)-1] + "5"
		}
	case 2:
		m := rapid.Int64Range(-9999, 9999).Draw(t, "m")
		e := rapid.IntRange(-20, 20).Draw(t, "e")
		mant := itoa(m)
		if rapid.Bool().Draw(t, "frac") {
			mant = decStr(m, 2)
		}
		v = mant + rapid.SampledFrom([]string{"e", "E"}).Draw(t, "E") + itoa(int64(e))
	default:
		v = genNonNumeric(t, "nn")
	}
	c.Args = []Arg{mkArg(t, 0, v, false)}
	return c
}

func classOf(s string) (numClass, bool) {
	if isCanonInt(s) {
		return clsInt, true
	}
	if isPlainDec(s) && strings.Contains(s, ".") && s[0] != '+' {
		if ratOf(s).IsInt() {
			return 0, false // "1.0": open for isint
		}
		return clsDecimal, true
	}
	if plainNumber(s) && strings.ContainsAny(s, "eE") && s[0] != '+' {
		return clsExponent, true
	}
	if clearlyNonNumeric(s) {
		return clsNone, true
	}
	return 0, false
}

func checkTyped(c Case) error {
	if len(c.Args) != 1 {
		return fmt.Errorf("harness: one argument")
	}
	cls, ok := classOf(c.arg(0))
	if !ok {
		return nil // not generated
	}
	r, err := evalClean(c)
	if err != nil {
		return err
	}
	c.Obs.Label(true, map[numClass]string{clsInt: "class:int", clsDecimal: "class:decimal", clsExponent: "class:exponent", clsNone: "class:not-a-number"}[cls])
	if c.Fn == "isint" {
		if cls == clsExponent {
			// "1e3" is an integer value in float spelling: open
			return nil
		}
		return wantTruth(c, r, cls == clsInt)
	}
	return wantTruth(c, r, cls != clsNone)
}

func classifyTyped(c Case) (bool, []string) { return true, baseLabels(c) }

var specTyped = pbt.Spec[Case]{
	Property: prop, Name: "isint-isnum",
	Rule:     "isint/isnum of a canonical int64, a non-integral plain decimal, an exponent spelling, or a string with no numeric reading, via constant/group/key; isint truthy iff canonical int64 (exponent spellings not asserted), isnum truthy iff any of the three numeric classes. Every case non-trivial; labels show the class",
	Budget:   pbt.Budget{Quick: 10000, Thorough: 80000},
	Gen:      genTyped,
	Check:    checkTyped,
	Classify: classifyTyped,
}

func TestTyped(t *testing.T) { pbt.Run(t, specTyped) }
