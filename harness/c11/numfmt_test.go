package c11

import (
	"fmt"
	"math"
	"math/big"
	"regexp"
	"strconv"
	"strings"
	"testing"

	"pgregory.net/rapid"
	"verifharness/pbt"
)

// ---------- number formatting: hi hf percent bytesize bytesizesi downscale ----------
//
// Statement: "`hi` only inserts thousands separators". Docs: hi/hf "Formats a
// number based with appropriate placement of commas and decimals";
// {percent val ["precision=1"] [[min=0] max=1]} with the four examples
// (12.3% / 12.34% / 25% / 50.0000%); bytesize "(eg 1024 = 1KB), or in SI
// units (1000 = 1KB). An optional precision allows adding decimals";
// downscale "Formats numbers by thousands (k), Millions (M), Billions (B), or
// Trillions (T). eg. {downscale 10000} will result in 10k".
//
// Oracles
//   hi: matches ^-?\d{1,3}(,\d{3})*$ and equals the input once commas go.
//   hf: same grouping on the integer part; once commas go it is the input
//       rounded to the number of decimals shown (half a unit of the last
//       decimal, either neighbour at a tie, + 2^-50 relative for the double).
//   percent: "<number>%", exactly `precision` decimals, number within half a
//       unit of that decimal (+1e-9 relative) of (v-min)*100/(max-min).
//   bytesize/bytesizesi/downscale: "<number><blank?><unit>"; the unit letter
//       fixes a rank r (B K M G T P E Z, case not asserted / "" k M B T);
//       a scaled number has exactly `precision` decimals (default 0);
//       number*step^r is within half a unit of the last printed decimal of n
//       (+1e-9 relative); step^r <= |n| and, unless r is the last unit,
//       |n| < step^(r+1) (exact below 2^40, 1e-9 slack above for the doubles).
//
// Left open and not generated: bytesize of negatives or above MaxInt64,
// negative or non-constant precision, percent with min >= max, hf beyond
// 1e18, non-canonical spellings, inf/nan.

var reGrouped = regexp.MustCompile(`^-?[0-9]{1,3}(,[0-9]{3})*(\.[0-9]+)?$`)

func genNumFmt(t *rapid.T) Case {
	fn := rapid.SampledFrom([]string{"hi", "hi", "hf", "hf", "percent", "bytesize", "bytesizesi", "downscale"}).Draw(t, "fn")
	c := Case{Fn: fn, Obs: pbt.NewObs()}
	nonNum := rapid.IntRange(0, 14).Draw(t, "nonnumeric") == 0
	first := func(v string) {
		if nonNum {
			v = genNonNumeric(t, "nn")
		}
		c.Args = append(c.Args, mkArg(t, 0, v, false))
	}
	switch fn {
	case "hi":
		first(itoa(genInt(t, "v")))
	case "hf":
		switch rapid.IntRange(0, 3).Draw(t, "class") {
		case 0:
			// hugging a power of 1000 from below, inside the last printed decimals
			k := rapid.IntRange(1, 5).Draw(t, "p1000")
			p := int64(1)
			for i := 0; i < k; i++ {
				p *= 1000
			}
			sc := rapid.IntRange(1, 6).Draw(t, "scale")
			d := rapid.Int64Range(-30, 30).Draw(t, "d")
			if p > (1<<53)/pow10i(sc) {
				sc = 1
			}
			m := p*pow10i(sc) + d
			if rapid.Bool().Draw(t, "neg") {
				m = -m
			}
			first(decStr(m, sc))
		case 1:
			first(itoa(genInt(t, "i") / 8))
		default:
			first(genDec(t, "v"))
		}
	case "percent":
		n := rapid.IntRange(1, 4).Draw(t, "arity")
		prec := rapid.IntRange(0, 6).Draw(t, "prec")
		switch n {
		case 1, 2:
			first(decStr(rapid.Int64Range(-20000, 20000).Draw(t, "m"), rapid.IntRange(0, 6).Draw(t, "s")))
			if n == 2 {
				c.Args = append(c.Args, konst(strconv.Itoa(prec)))
			}
		case 3:
			max := rapid.SampledFrom([]string{"100", "1", "0.5", "50", "200", "1000", "3", "7", "1024", "0.001"}).Draw(t, "max")
			first(genSmallDec(t, "v"))
			c.Args = append(c.Args, konst(strconv.Itoa(prec)), mkArg(t, 2, max, false))
		case 4:
			lo := rapid.Int64Range(-1000, 1000).Draw(t, "min")
			span := rapid.SampledFrom([]int64{1, 2, 3, 7, 10, 50, 100, 1000, 4096}).Draw(t, "span")
			first(genSmallDec(t, "v"))
			c.Args = append(c.Args, konst(strconv.Itoa(prec)), mkArg(t, 2, itoa(lo), false), mkArg(t, 3, itoa(lo+span), false))
		}
	case "bytesize", "bytesizesi", "downscale":
		step := int64(1000)
		if fn == "bytesize" {
			step = 1024
		}
		var v int64
		switch rapid.IntRange(0, 3).Draw(t, "class") {
		case 0:
			v = genInt(t, "v")
		case 1:
			// m*step^k + d: the unit boundaries and their neighbours
			k := rapid.IntRange(1, 6).Draw(t, "k")
			p := big.NewInt(1)
			for i := 0; i < k; i++ {
				p.Mul(p, bigOf(step))
			}
			m := rapid.SampledFrom([]int64{1, 1, 1, 2, 5, 10, 100, 512, 999, 1000, 1023, 1024}).Draw(t, "m")
			p.Mul(p, bigOf(m))
			p.Add(p, bigOf(rapid.Int64Range(-2, 2).Draw(t, "d")))
			if fits64(p) {
				v = p.Int64()
			} else {
				v = math.MaxInt64
			}
		default:
			v = rapid.Int64Range(0, 1<<40).Draw(t, "small")
			if rapid.Bool().Draw(t, "tiny") {
				v %= 5000
			}
		}
		if fn != "downscale" {
			if v < 0 {
				pbt.Exclude("bytesize of a negative")
				if v == math.MinInt64 {
					v = math.MaxInt64
				} else {
					v = -v
				}
			}
		} else if rapid.Bool().Draw(t, "neg") && v != math.MinInt64 {
			v = -v
		}
		first(itoa(v))
		if rapid.Bool().Draw(t, "hasprec") {
			c.Args = append(c.Args, konst(strconv.Itoa(rapid.IntRange(0, 6).Draw(t, "prec"))))
		}
	}
	return c
}

func genSmallDec(t *rapid.T, label string) string {
	return decStr(rapid.Int64Range(-3000000, 3000000).Draw(t, label+"-m"), rapid.IntRange(0, 4).Draw(t, label+"-s"))
}

// halfUnitTol: half a unit of the d-th decimal + rel * |v|
func halfUnitTol(decimals int, v *big.Rat, relNum, relDen int64) *big.Rat {
	half := new(big.Rat).Mul(ratUnit(decimals), big.NewRat(1, 2))
	return half.Add(half, new(big.Rat).Mul(absRat(v), big.NewRat(relNum, relDen)))
}

var unitRankBytes = map[string]int{"B": 0, "KB": 1, "MB": 2, "GB": 3, "TB": 4, "PB": 5, "EB": 6, "ZB": 7}
var unitRankDown = map[string]int{"": 0, "k": 1, "M": 2, "B": 3, "T": 4}

var reUnitized = regexp.MustCompile(`^(-?[0-9]+(?:\.[0-9]+)?)( ?)([A-Za-z]*)$`)

func checkNumFmt(c Case) error {
	v := c.vals()
	if len(v) < 1 {
		return fmt.Errorf("harness: no arguments")
	}
	intDomain := c.Fn == "hi" || c.Fn == "bytesize" || c.Fn == "bytesizesi" || c.Fn == "downscale"
	numeric := isPlainDec
	if intDomain {
		numeric = isCanonInt
	}
	if !numeric(v[0]) {
		if !clearlyNonNumeric(v[0]) {
			return nil
		}
		for _, k := range v[1:] {
			if !isPlainDec(k) {
				return nil
			}
		}
		c.Obs.Label(true, "non-numeric")
		return checkNonNumeric(c, 0)
	}
	switch c.Fn {
	case "hi":
		if len(v) != 1 {
			return nil
		}
		r, err := evalClean(c)
		if err != nil {
			return err
		}
		if !reGrouped.MatchString(r.out) || strings.Contains(r.out, ".") {
			return fail(c, r, "not of the form -?ddd(,ddd)*")
		}
		if plain := strings.ReplaceAll(r.out, ",", ""); plain != v[0] {
			return fail(c, r, "with the separators removed this is %q, not the input", plain)
		}
		digits := len(strings.TrimPrefix(v[0], "-"))
		c.Obs.Label(true, "digits%3="+strconv.Itoa(digits%3))
		c.Obs.Label(v[0][0] == '-', "negative")
		c.Obs.Label(digits > 3, "has-separator")
		c.Obs.Label(digits >= 19, "19-digits")
		return nil
	case "hf":
		if len(v) != 1 {
			return nil
		}
		x := ratOf(v[0])
		if absRat(x).Cmp(new(big.Rat).SetInt64(1000000000000000000)) > 0 {
			return nil
		}
		r, err := evalClean(c)
		if err != nil {
			return err
		}
		if !reGrouped.MatchString(r.out) {
			return fail(c, r, "integer part is not grouped as -?ddd(,ddd)*")
		}
		plain := strings.ReplaceAll(r.out, ",", "")
		got := ratOf(plain)
		d := decimalsOf(plain)
		if !within(got, x, halfUnitTol(d, x, 1, 1<<50)) {
			return fail(c, r, "with the separators removed this is %s, which is not %s rounded to %d decimals", plain, v[0], d)
		}
		intDigits := len(strings.TrimPrefix(strings.SplitN(plain, ".", 2)[0], "-"))
		c.Obs.Label(true, "digits%3="+strconv.Itoa(intDigits%3))
		c.Obs.Label(intDigits > 3, "has-separator")
		c.Obs.Label(x.Sign() < 0, "negative")
		// did rounding carry into a new digit group?
		xi := new(big.Int).Quo(absRat(x).Num(), absRat(x).Denom())
		c.Obs.Label(len(xi.String()) < intDigits && xi.Sign() > 0, "rounding-adds-digit")
		return nil
	case "percent":
		if len(v) > 4 {
			return nil
		}
		prec := 1
		lo, hi := new(big.Rat), big.NewRat(1, 1)
		if len(v) >= 2 {
			if c.Args[1].Via != "const" {
				return nil
			}
			p, err := strconv.Atoi(v[1])
			if err != nil || p < 0 || p > 12 || strconv.Itoa(p) != v[1] {
				return nil
			}
			prec = p
		}
		if len(v) == 3 {
			if !isPlainDec(v[2]) {
				return nil
			}
			hi = ratOf(v[2])
		}
		if len(v) == 4 {
			if !isPlainDec(v[2]) || !isPlainDec(v[3]) {
				return nil
			}
			lo, hi = ratOf(v[2]), ratOf(v[3])
		}
		if lo.Cmp(hi) >= 0 {
			return nil // not generated
		}
		x := ratOf(v[0])
		want := new(big.Rat).Sub(x, lo)
		want.Mul(want, big.NewRat(100, 1))
		span := new(big.Rat).Sub(hi, lo)
		want.Quo(want, span)
		r, err := evalClean(c)
		if err != nil {
			return err
		}
		if !strings.HasSuffix(r.out, "%") {
			return fail(c, r, "does not end in %%")
		}
		num := strings.TrimSuffix(r.out, "%")
		if !isPlainDec(num) {
			return fail(c, r, "%q is not a plain number", num)
		}
		if decimalsOf(num) != prec {
			return fail(c, r, "want exactly %d decimals", prec)
		}
		// cancellation in v-min: error relative to |v|+|min|
		scale := new(big.Rat).Add(absRat(x), absRat(lo))
		scale.Mul(scale, big.NewRat(100, 1))
		scale.Quo(scale, span)
		if !within(ratOf(num), want, halfUnitTol(prec, scale, 1, 1000000000)) {
			return fail(c, r, "(v-min)*100/(max-min) is %s", fstr(want))
		}
		c.Obs.Label(true, "arity="+strconv.Itoa(len(v)))
		c.Obs.Label(want.Sign() < 0, "below-range")
		c.Obs.Label(want.Cmp(big.NewRat(100, 1)) > 0, "above-range")
		c.Obs.Label(lo.Sign() != 0, "min!=0")
		return nil
	case "bytesize", "bytesizesi", "downscale":
		if len(v) > 2 {
			return nil
		}
		prec := 0 // documented default: [precision=0]
		if len(v) == 2 {
			if c.Args[1].Via != "const" {
				return nil
			}
			p, err := strconv.Atoi(v[1])
			if err != nil || p < 0 || p > 12 || strconv.Itoa(p) != v[1] {
				return nil
			}
			prec = p
		}
		n, _ := canonInt(v[0])
		if c.Fn != "downscale" && n < 0 {
			return nil // not generated
		}
		step := int64(1000)
		if c.Fn == "bytesize" {
			step = 1024
		}
		r, err := evalClean(c)
		if err != nil {
			return err
		}
		m := reUnitized.FindStringSubmatch(r.out)
		if m == nil {
			return fail(c, r, "not of the form <number>[ ]<unit>")
		}
		var rank, last int
		var ok bool
		if c.Fn == "downscale" {
			rank, ok = unitRankDown[m[3]]
			last = 4
		} else {
			rank, ok = unitRankBytes[strings.ToUpper(m[3])]
			last = 7
		}
		if !ok {
			return fail(c, r, "unknown unit %q", m[3])
		}
		// "An optional precision allows adding decimals": scaled values carry
		// exactly `precision` decimals; unscaled ones (rank 0) may stay whole.
		if d := decimalsOf(m[1]); d != prec && !(rank == 0 && d == 0) {
			return fail(c, r, "want %d decimals, got %d", prec, d)
		}
		mult := new(big.Int).Exp(bigOf(step), big.NewInt(int64(rank)), nil)
		shown := new(big.Rat).Mul(ratOf(m[1]), new(big.Rat).SetInt(mult))
		exact := new(big.Rat).SetInt64(n)
		// half a unit of the last printed decimal, scaled by the unit
		tol := new(big.Rat).Mul(ratUnit(decimalsOf(m[1])), big.NewRat(1, 2))
		tol.Mul(tol, new(big.Rat).SetInt(mult))
		tol.Add(tol, new(big.Rat).Mul(absRat(exact), relTol))
		if !within(shown, exact, tol) {
			return fail(c, r, "%s x %d^%d = %s is not %d to the printed precision", m[1], step, rank, fstr(shown), n)
		}
		// the unit: step^rank <= |n| (< step^(rank+1) unless last), with slack for doubles
		// below 2^40 a boundary is at least 1e-12 (relative) away from its
		// neighbours, far beyond double rounding: no slack there.
		absn := absRat(exact)
		slack := new(big.Rat)
		if absn.Cmp(new(big.Rat).SetInt64(1<<40)) >= 0 {
			slack = relTol
		}
		slackLo := new(big.Rat).Mul(absn, new(big.Rat).Add(big.NewRat(1, 1), slack))
		slackHi := new(big.Rat).Mul(absn, new(big.Rat).Sub(big.NewRat(1, 1), slack))
		if rank > 0 && slackLo.Cmp(new(big.Rat).SetInt(mult)) < 0 {
			return fail(c, r, "unit too large: |n| < %d^%d", step, rank)
		}
		next := new(big.Int).Mul(mult, bigOf(step))
		if rank < last && slackHi.Cmp(new(big.Rat).SetInt(next)) >= 0 {
			return fail(c, r, "unit too small: |n| >= %d^%d", step, rank+1)
		}
		c.Obs.Label(true, "rank="+strconv.Itoa(rank))
		c.Obs.Label(rank == last, "last-unit")
		c.Obs.Label(n < 0, "negative")
		an := new(big.Int).Abs(bigOf(n))
		for k := 1; k <= 6; k++ {
			p := new(big.Int).Exp(bigOf(step), big.NewInt(int64(k)), nil)
			d := new(big.Int).Sub(an, p)
			c.Obs.Label(d.CmpAbs(big.NewInt(2)) <= 0, "unit-boundary+-2")
		}
		c.Obs.Label(len(v) == 2 && v[1] != "0", "precision>0")
		return nil
	}
	return fmt.Errorf("harness: unknown fn %s", c.Fn)
}

func classifyNumFmt(c Case) (bool, []string) {
	l := baseLabels(c)
	return true, l
}

var specNumFmt = pbt.Spec[Case]{
	Property: prop, Name: "number-format",
	Rule:     "hi of any int64 (boundaries incl. MinInt64, every digit count); hf of decimals incl. values hugging 1000^k from below; percent with 1-4 arguments, constant precision 0-6, min<max; bytesize/bytesizesi (0..MaxInt64) and downscale (any int64) around m*step^k+-2 with optional constant precision 0-6; first argument via constant/group/key; oracles: grouping regexp + separators removed equals the input (hi) or the input rounded to the shown decimals (hf), the percent formula to half a unit of the last decimal, unit rank and value to the printed precision; 1 in 15 non-numeric. Every case non-trivial; labels show digit-count classes, unit ranks and boundaries",
	Budget:   pbt.Budget{Quick: 25000, Thorough: 200000},
	Gen:      genNumFmt,
	Check:    checkNumFmt,
	Classify: classifyNumFmt,
}

func TestNumFmt(t *testing.T) { pbt.Run(t, specNumFmt) }
