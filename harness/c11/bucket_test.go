package c11

import (
	"fmt"
	"math"
	"math/big"
	"strings"
	"testing"

	"pgregory.net/rapid"
	"verifharness/pbt"
)

// ---------- bucketing: bucket bucketrange expbucket clamp ------------------------
//
// Statement: "bucket(v,s) is the multiple b of s with b <= v < b+s, clamp
// returns v iff min <= v <= max". Docs: {bucket intVal "bucketSize"};
// {bucketrange 70 50} will return "50 - 99"; {expbucket intVal} "Create
// exponentially (base-10) increase buckets" (123 -> 100 in rare's tests: the
// bucket is named by its lower bound, the power of ten p with p <= v < 10p);
// {clamp intVal "min" "max"}: "If falls outside bucket, returns the word
// "min" or "max" as appropriate."
//
// Left open and not generated: bucket size <= 0 or not a constant; buckets
// whose bounds are not representable in int64; clamp with min > max or
// non-constant bounds; expbucket of v <= 0; non-canonical spellings.

var bucketSizes = []int64{1, 2, 3, 5, 7, 10, 16, 50, 60, 100, 1000, 1024, 10000, 86400, 1000000, 1 << 32, 1 << 40, 1000000000000, 1 << 62, math.MaxInt64}

func genBucketing(t *rapid.T) Case {
	fn := rapid.SampledFrom([]string{"bucket", "bucket", "bucketrange", "bucketrange", "clamp", "clamp", "expbucket"}).Draw(t, "fn")
	c := Case{Fn: fn, Obs: pbt.NewObs()}
	nonNum := rapid.IntRange(0, 14).Draw(t, "nonnumeric") == 0
	switch fn {
	case "bucket", "bucketrange":
		var s int64
		if rapid.Bool().Draw(t, "poolsize") {
			s = rapid.SampledFrom(bucketSizes).Draw(t, "size")
		} else {
			s = rapid.Int64Range(1, 5000).Draw(t, "size")
		}
		var v int64
		switch rapid.IntRange(0, 3).Draw(t, "vclass") {
		case 0:
			v = genInt(t, "v")
		default:
			// m*s + d around exact multiples, both signs
			lim := int64(math.MaxInt64) / s
			if lim > 1000000 {
				lim = 1000000
			}
			m := rapid.Int64Range(-lim, lim).Draw(t, "m")
			d := rapid.SampledFrom([]int64{0, 0, 0, 1, -1, 2}).Draw(t, "d")
			p := new(big.Int).Mul(bigOf(m), bigOf(s))
			p.Add(p, bigOf(d))
			if fits64(p) {
				v = p.Int64()
			}
		}
		lo, hi := bucketBounds(v, s)
		if !fits64(lo) || (fn == "bucketrange" && !fits64(hi)) {
			pbt.Exclude("bucket bound outside int64")
			v = 0
		}
		val := itoa(v)
		if v >= 0 && rapid.IntRange(0, 7).Draw(t, "pad") == 0 {
			val = strings.Repeat("0", rapid.IntRange(1, 3).Draw(t, "zeros")) + val
		}
		if nonNum {
			val = genNonNumeric(t, "nn")
		}
		size := itoa(s)
		if rapid.IntRange(0, 5).Draw(t, "padsize") == 0 {
			// a zero-padded constant is the same decimal number (integers are read in base 10 everywhere)
			size = strings.Repeat("0", rapid.IntRange(1, 2).Draw(t, "sizezeros")) + size
		}
		c.Args = []Arg{mkArg(t, 0, val, false), konst(size)}
	case "clamp":
		a, b := genInt(t, "min"), genInt(t, "max")
		if a > b {
			a, b = b, a
		}
		reversed := a < b && rapid.IntRange(0, 7).Draw(t, "reversedBounds") == 0
		if reversed {
			// min > max: no value lies between them, so the value itself is never the answer
			a, b = b, a
		}
		var v int64
		switch rapid.IntRange(0, 6).Draw(t, "vclass") {
		case 0:
			v = a
		case 1:
			v = b
		case 2:
			v = a - 1
			if a == math.MinInt64 {
				v = a
			}
		case 3:
			v = b + 1
			if b == math.MaxInt64 {
				v = b
			}
		case 4:
			// strictly inside when possible
			if a < b {
				v = rapid.Int64Range(a, b).Draw(t, "inside")
			} else if a > b {
				v = rapid.Int64Range(b, a).Draw(t, "between-reversed")
			} else {
				v = a
			}
		default:
			v = genInt(t, "v")
		}
		val := itoa(v)
		if nonNum {
			val = genNonNumeric(t, "nn")
		}
		lim := func(x int64, label string) string {
			if x >= 0 && rapid.IntRange(0, 5).Draw(t, label) == 0 {
				return "0" + itoa(x)
			}
			return itoa(x)
		}
		c.Args = []Arg{mkArg(t, 0, val, false), konst(lim(a, "padmin")), konst(lim(b, "padmax"))}
	case "expbucket":
		var v int64
		switch rapid.IntRange(0, 2).Draw(t, "vclass") {
		case 0:
			k := rapid.IntRange(0, 18).Draw(t, "p10")
			v = pow10i(k) + rapid.Int64Range(-1, 1).Draw(t, "d")
			if rapid.Bool().Draw(t, "times") {
				m := rapid.Int64Range(1, 9).Draw(t, "m")
				if pow10i(k) <= math.MaxInt64/m {
					v = pow10i(k)*m + rapid.Int64Range(-1, 1).Draw(t, "d2")
				}
			}
		default:
			v = genInt(t, "v")
		}
		if v == math.MinInt64 {
			v = math.MaxInt64
		}
		if v < 0 {
			v = -v
		}
		if v == 0 {
			pbt.Exclude("expbucket of v<=0")
			v = 1
		}
		val := itoa(v)
		if rapid.IntRange(0, 5).Draw(t, "pad") == 0 {
			val = strings.Repeat("0", rapid.IntRange(1, 3).Draw(t, "zeros")) + val
		}
		if nonNum {
			val = genNonNumeric(t, "nn")
		}
		c.Args = []Arg{mkArg(t, 0, val, false)}
	}
	return c
}

// bucketBounds: the multiple lo of s with lo <= v < lo+s, and hi = lo+s-1.
func bucketBounds(v, s int64) (lo, hi *big.Int) {
	bv, bs := bigOf(v), bigOf(s)
	m := new(big.Int).Mod(bv, bs) // Euclidean: 0 <= m < s
	lo = new(big.Int).Sub(bv, m)
	hi = new(big.Int).Add(lo, bs)
	hi.Sub(hi, big.NewInt(1))
	return
}

// unpad: a zero-padded decimal integer ("007", "0099") - as log fields often
// are - denotes the number without the padding (rare reads integers in base
// 10 everywhere: {sumi 010 1} is 11).
func unpad(s string) (string, bool) {
	if len(s) < 2 || s[0] != '0' {
		return s, false
	}
	for _, r := range s {
		if r < '0' || r > '9' {
			return s, false
		}
	}
	t := strings.TrimLeft(s, "0")
	if t == "" {
		t = "0"
	}
	return t, true
}

func checkBucketing(c Case) error {
	v := c.vals()
	if len(v) < 1 {
		return fmt.Errorf("harness: no arguments")
	}
	if c.Fn != "clamp" {
		if u, ok := unpad(v[0]); ok {
			v[0] = u
			c.Obs.Label(true, "zero-padded-value")
		}
	}
	for i := 1; i < len(v); i++ {
		if c.Args[i].Via == "const" {
			if u, ok := unpad(v[i]); ok {
				v[i] = u
				c.Obs.Label(true, "zero-padded-constant")
			}
		}
	}
	if !isCanonInt(v[0]) {
		if !clearlyNonNumeric(v[0]) {
			return nil
		}
		for _, k := range v[1:] {
			if !isCanonInt(k) {
				return nil
			}
		}
		c.Obs.Label(true, "non-numeric")
		return checkNonNumeric(c, 0)
	}
	val, _ := canonInt(v[0])
	switch c.Fn {
	case "bucket", "bucketrange":
		if len(v) != 2 || c.Args[1].Via != "const" {
			return nil
		}
		s, ok := canonInt(v[1])
		if !ok || s <= 0 {
			return nil // not generated
		}
		lo, hi := bucketBounds(val, s)
		if !fits64(lo) || (c.Fn == "bucketrange" && !fits64(hi)) {
			return nil
		}
		r, err := evalClean(c)
		if err != nil {
			return err
		}
		exact := lo.Cmp(bigOf(val)) == 0
		c.Obs.Label(exact, "exact-multiple")
		c.Obs.Label(val < 0, "negative")
		c.Obs.Label(val < 0 && exact, "negative-exact-multiple")
		c.Obs.Label(val == 0, "zero")
		c.Obs.Label(s == 1, "size=1")
		c.Obs.Label(s > 1<<31, "size>2^31")
		if c.Fn == "bucket" {
			return wantExact(c, r, lo.String())
		}
		return wantExact(c, r, lo.String()+" - "+hi.String())
	case "clamp":
		if len(v) != 3 || c.Args[1].Via != "const" || c.Args[2].Via != "const" {
			return nil
		}
		lo, ok1 := canonInt(v[1])
		hi, ok2 := canonInt(v[2])
		if !ok1 || !ok2 {
			return nil
		}
		r, err := evalClean(c)
		if err != nil {
			return err
		}
		if lo > hi {
			// "returns v iff min <= v <= max": with min > max that never holds, so the answer is one of the
			// two words (which of them is not asserted)
			c.Obs.Label(true, "min>max")
			if r.out != "min" && r.out != "max" {
				return fail(c, r, "min > max: no value is within the bounds, want min or max")
			}
			return nil
		}
		c.Obs.Label(val == lo, "at-min")
		c.Obs.Label(val == hi, "at-max")
		c.Obs.Label(val < lo, "below")
		c.Obs.Label(val > hi, "above")
		c.Obs.Label(val != lo && lo != math.MinInt64 && val == lo-1, "min-1")
		c.Obs.Label(val != hi && hi != math.MaxInt64 && val == hi+1, "max+1")
		c.Obs.Label(lo == hi, "min=max")
		switch {
		case val < lo:
			return wantExact(c, r, "min")
		case val > hi:
			return wantExact(c, r, "max")
		default:
			return wantExact(c, r, v[0])
		}
	case "expbucket":
		if len(v) != 1 || val <= 0 {
			return nil
		}
		r, err := evalClean(c)
		if err != nil {
			return err
		}
		p, ok := canonInt(r.out)
		if !ok || p <= 0 {
			return fail(c, r, "result is not a positive canonical integer")
		}
		q := p
		for q%10 == 0 {
			q /= 10
		}
		if q != 1 {
			return fail(c, r, "result is not a power of ten")
		}
		ten := new(big.Int).Mul(bigOf(p), big.NewInt(10))
		if p > val || ten.Cmp(bigOf(val)) <= 0 {
			return fail(c, r, "want the power of ten p with p <= v < 10p")
		}
		c.Obs.Label(p == val, "exact-power")
		c.Obs.Label(ten.Cmp(bigOf(val+1)) == 0 && val != math.MaxInt64, "power-1")
		c.Obs.Label(val > 1<<53, "v>2^53")
		return nil
	}
	return fmt.Errorf("harness: unknown fn %s", c.Fn)
}

func classifyBucketing(c Case) (bool, []string) {
	l := baseLabels(c)
	nt := false
	for _, k := range []string{"exact-multiple", "negative", "zero", "at-min", "at-max", "below", "above", "exact-power", "power-1", "v>2^53", "non-numeric", "size>2^31"} {
		nt = nt || c.Obs.Has(k)
	}
	if c.Obs == nil {
		nt = true
	}
	return nt, l
}

var specBucketing = pbt.Spec[Case]{
	Property: prop, Name: "bucketing",
	Rule:     "bucket/bucketrange with a constant size >0 (1..5000, powers, 2^62, MaxInt64) and a value that is m*size+{0,+-1,2} (both signs) or a boundary int64; clamp with constant min<=max and v in {min,max,min-1,max+1,inside,any}; expbucket of v>=1 around m*10^k+-1; value via constant/group/key; oracle: big.Int floor multiple / exact clamp law / power of ten p<=v<10p; 1 in 15 non-numeric. Non-trivial: exact multiple, negative, zero, at/over a bound, exact power, power-1, >2^53, non-numeric",
	Budget:   pbt.Budget{Quick: 25000, Thorough: 200000},
	Gen:      genBucketing,
	Check:    checkBucketing,
	Classify: classifyBucketing,
}

func TestBucketing(t *testing.T) { pbt.Run(t, specBucketing) }
