package c11

import (
	"fmt"
	"math"
	"math/big"
	"strconv"
	"testing"

	"pgregory.net/rapid"
	"verifharness/pbt"
)

// ---------- float arithmetic ----------------------------------------------------
//
// Docs: sumf subf multf divf "Evaluates floating points using operator from
// left to right"; "{floor val}, {ceil val}, {round val [precision=0]} Returns
// the floor, ceil, or rounded format of a floating-point number";
// "{log10 val}, {log2 val}, {ln val}, {pow val exp}, {sqrt val} Returns the
// log (10, 2, or natural), power, or sqrt".
//
// Tolerances (stated once): the docs do not fix a precision; the oracle
// computes the exact rational result and accepts anything within 1e-9
// relative (sum/sub: relative to the sum of magnitudes), which every double
// precision evaluation meets by six orders of magnitude and every wrong
// operator / wrong operand order / dropped operand misses. floor/ceil are
// exact (inputs have <= 15 significant digits and are not within an ulp of an
// integer unless they are one). round accepts either neighbour at a tie.
//
// Not generated: zero divisors of divf, non-positive arguments of the logs,
// negative arguments of sqrt, 0 as pow base, inf/nan/hex/underscore
// spellings, |v| >= 1e15, negative or non-constant round precision.

var relTol = big.NewRat(1, 1000000000)

func isPlainDec(s string) bool {
	// -?digits[.digits]
	if !plainNumber(s) {
		return false
	}
	for i := 0; i < len(s); i++ {
		if s[i] == 'e' || s[i] == 'E' || s[i] == '+' {
			return false
		}
	}
	return true
}

func parseOut(c Case, r result) (*big.Rat, error) {
	if !plainNumber(r.out) {
		return nil, fail(c, r, "result is not a number")
	}
	v, ok := new(big.Rat).SetString(r.out)
	if !ok {
		return nil, fail(c, r, "result does not parse as a number")
	}
	return v, nil
}

func within(got, want, tol *big.Rat) bool {
	d := new(big.Rat).Sub(got, want)
	return d.Abs(d).Cmp(tol) <= 0
}

func fstr(r *big.Rat) string { return r.FloatString(12) }

// ----- sumf subf multf divf

var foldfFns = []string{"sumf", "subf", "multf", "divf"}

func genFloatFold(t *rapid.T) Case {
	fn := rapid.SampledFrom(foldfFns).Draw(t, "fn")
	c := Case{Fn: fn, Obs: pbt.NewObs()}
	n := rapid.SampledFrom([]int{2, 2, 2, 3, 3, 4, 5}).Draw(t, "n")
	if rapid.IntRange(0, 11).Draw(t, "nonnumeric") == 0 {
		bad := rapid.IntRange(0, n-1).Draw(t, "bad")
		for i := 0; i < n; i++ {
			v := genDec(t, "ok")
			if fn == "divf" && ratOf(v).Sign() == 0 {
				v = "2"
			}
			if i == bad {
				v = genNonNumeric(t, "nn")
			}
			c.Args = append(c.Args, mkArg(t, i, v, false))
		}
		return c
	}
	for i := 0; i < n; i++ {
		v := genDec(t, "v")
		if fn == "divf" && i > 0 && ratOf(v).Sign() == 0 {
			pbt.Exclude("divf zero divisor")
			v = "4"
		}
		c.Args = append(c.Args, mkArg(t, i, v, false))
	}
	return c
}

func checkFloatFold(c Case) error {
	if len(c.Args) < 2 {
		return fmt.Errorf("harness: %s needs 2+ arguments", c.Fn)
	}
	if bad, clear := firstNonNumeric(c.vals(), isPlainDec); bad >= 0 {
		if !clear {
			return nil // not generated
		}
		c.Obs.Label(true, "non-numeric")
		return checkNonNumeric(c, bad)
	}
	acc := ratOf(c.arg(0))
	mag := absRat(acc)
	for i := 1; i < len(c.Args); i++ {
		v := ratOf(c.arg(i))
		mag.Add(mag, absRat(v))
		switch c.Fn {
		case "sumf":
			acc = new(big.Rat).Add(acc, v)
		case "subf":
			acc = new(big.Rat).Sub(acc, v)
		case "multf":
			acc = new(big.Rat).Mul(acc, v)
		case "divf":
			if v.Sign() == 0 {
				return nil // not generated
			}
			acc = new(big.Rat).Quo(acc, v)
		default:
			return fmt.Errorf("harness: unknown fn %s", c.Fn)
		}
	}
	r, err := evalClean(c)
	if err != nil {
		return err
	}
	got, err := parseOut(c, r)
	if err != nil {
		return err
	}
	var tol *big.Rat
	if c.Fn == "sumf" || c.Fn == "subf" {
		tol = new(big.Rat).Mul(relTol, mag)
	} else {
		tol = new(big.Rat).Mul(relTol, absRat(acc))
	}
	c.Obs.Label(acc.Sign() < 0, "result<0")
	c.Obs.Label(!acc.IsInt(), "result-fractional")
	if !within(got, acc, tol) {
		return fail(c, r, "exact left fold is %s (tolerance %s)", fstr(acc), tol.FloatString(15))
	}
	return nil
}

func classifyFloat(c Case) (bool, []string) {
	l := baseLabels(c)
	l.Add(len(c.Args) > 2, "arity>2")
	neg, frac := false, false
	for _, v := range c.vals() {
		if isPlainDec(v) {
			neg = neg || v[0] == '-'
			frac = frac || !ratOf(v).IsInt()
		}
	}
	l.Add(neg, "arg<0")
	l.Add(frac, "arg-fractional")
	return neg || frac || c.Obs.Has("non-numeric"), l
}

var specFloatFold = pbt.Spec[Case]{
	Property: prop, Name: "float-fold",
	Rule:     "one call of sumf/subf/multf/divf with 2-5 plain decimal arguments (<=15 significant digits, values hugging powers of ten, integers) via constant/group/key; parsed result within 1e-9 relative of the exact big.Rat left fold; 1 in 12 cases has a non-numeric argument. Non-trivial: a negative or fractional argument, or a non-numeric one",
	Budget:   pbt.Budget{Quick: 15000, Thorough: 120000},
	Gen:      genFloatFold,
	Check:    checkFloatFold,
	Classify: classifyFloat,
}

func TestFloatFold(t *testing.T) { pbt.Run(t, specFloatFold) }

// ----- floor ceil round

func genRounding(t *rapid.T) Case {
	fn := rapid.SampledFrom([]string{"floor", "ceil", "round", "round"}).Draw(t, "fn")
	c := Case{Fn: fn, Obs: pbt.NewObs()}
	var v string
	if rapid.IntRange(0, 11).Draw(t, "nonnumeric") == 0 {
		v = genNonNumeric(t, "nn")
	} else if rapid.IntRange(0, 3).Draw(t, "tie") == 0 {
		// k + 0.5 at some decimal position: exercises the tie tolerance and the half-way neighbourhood
		sc := rapid.IntRange(1, 6).Draw(t, "scale")
		m := rapid.Int64Range(-2000000, 2000000).Draw(t, "mant")*10 + rapid.SampledFrom([]int64{4, 5, 6}).Draw(t, "last")
		v = decStr(m, sc)
	} else {
		v = genDec(t, "v")
	}
	c.Args = append(c.Args, mkArg(t, 0, v, false))
	if fn == "round" && rapid.IntRange(0, 3).Draw(t, "hasprec") > 0 {
		p := rapid.IntRange(0, 8).Draw(t, "prec")
		c.Args = append(c.Args, konst(strconv.Itoa(p)))
	}
	return c
}

func checkRounding(c Case) error {
	if len(c.Args) < 1 {
		return fmt.Errorf("harness: no argument")
	}
	if !isPlainDec(c.arg(0)) {
		if !clearlyNonNumeric(c.arg(0)) {
			return nil // not generated
		}
		c.Obs.Label(true, "non-numeric")
		return checkNonNumeric(c, 0)
	}
	v := ratOf(c.arg(0))
	r, err := evalClean(c)
	if err != nil {
		return err
	}
	switch c.Fn {
	case "floor", "ceil":
		n, ok := canonInt(r.out)
		if !ok {
			return fail(c, r, "result is not a canonical integer")
		}
		nr := new(big.Rat).SetInt64(n)
		d := new(big.Rat).Sub(v, nr) // v - n
		one := big.NewRat(1, 1)
		if c.Fn == "floor" {
			// n <= v < n+1
			if d.Sign() < 0 || d.Cmp(one) >= 0 {
				return fail(c, r, "floor must be the integer n with n <= v < n+1")
			}
		} else {
			// n-1 < v <= n
			if d.Sign() > 0 || d.Cmp(new(big.Rat).Neg(one)) <= 0 {
				return fail(c, r, "ceil must be the integer n with n-1 < v <= n")
			}
		}
		c.Obs.Label(v.IsInt(), "integral-input")
		c.Obs.Label(v.Sign() < 0 && !v.IsInt(), "negative-fractional")
		return nil
	case "round":
		p := 0
		if len(c.Args) > 1 {
			p, err = strconv.Atoi(c.arg(1))
			if err != nil || p < 0 {
				return nil // not generated
			}
		}
		got, err := parseOut(c, r)
		if err != nil {
			return err
		}
		if decimalsOf(r.out) > p {
			return fail(c, r, "more than %d decimals", p)
		}
		// |got - v| <= half a unit of the p-th decimal (+ reading error of v as a double)
		half := new(big.Rat).Mul(ratUnit(p), big.NewRat(1, 2))
		eps := new(big.Rat).Mul(absRat(v), big.NewRat(1, 1<<50))
		tol := new(big.Rat).Add(half, eps)
		if !within(got, v, tol) {
			return fail(c, r, "not within half a unit of decimal %d of %s", p, c.arg(0))
		}
		// tie?
		dist := new(big.Rat).Sub(got, v)
		c.Obs.Label(dist.Abs(dist).Cmp(half) == 0, "exact-tie")
		c.Obs.Label(decimalsOf(c.arg(0)) > p, "drops-digits")
		c.Obs.Label(p > 0, "precision>0")
		return nil
	}
	return fmt.Errorf("harness: unknown fn %s", c.Fn)
}

func classifyRounding(c Case) (bool, []string) {
	l := baseLabels(c)
	nt := c.Obs.Has("non-numeric") || c.Obs.Has("drops-digits") || c.Obs.Has("negative-fractional") || c.Obs.Has("integral-input")
	if isPlainDec(c.arg(0)) && !ratOf(c.arg(0)).IsInt() {
		nt = true
		l.Add(true, "fractional-input")
	}
	return nt, l
}

var specRounding = pbt.Spec[Case]{
	Property: prop, Name: "rounding",
	Rule:     "floor/ceil/round of a plain decimal (<=15 significant digits; a quarter of them end in ..4/..5/..6 at some decimal place) via constant/group/key, round precision 0-8 as constant or absent; floor: n<=v<n+1, ceil: n-1<v<=n, round: at most p decimals and within half a unit of decimal p (either neighbour at a tie); 1 in 12 non-numeric. Non-trivial: fractional or negative-fractional input, digits dropped, non-numeric",
	Budget:   pbt.Budget{Quick: 15000, Thorough: 120000},
	Gen:      genRounding,
	Check:    checkRounding,
	Classify: classifyRounding,
}

func TestRounding(t *testing.T) { pbt.Run(t, specRounding) }

// ----- log10 log2 ln sqrt pow

func genPositiveDec(t *rapid.T, label string) string {
	switch rapid.IntRange(0, 4).Draw(t, label+"-class") {
	case 0:
		k := rapid.IntRange(0, 12).Draw(t, label+"-p10")
		return itoa(pow10i(k))
	case 1:
		k := rapid.IntRange(0, 40).Draw(t, label+"-p2")
		return itoa(int64(1) << uint(k))
	case 2:
		return decStr(rapid.Int64Range(1, 99999).Draw(t, label+"-m"), rapid.IntRange(0, 6).Draw(t, label+"-s"))
	case 3:
		n := rapid.Int64Range(1, 3000000).Draw(t, label+"-sq")
		return itoa(n * n)
	default:
		return itoa(rapid.Int64Range(1, 1<<40).Draw(t, label+"-n"))
	}
}

type frac struct{ n, d int64 }

var powExps = []struct {
	s string
	f frac
}{{"0", frac{0, 1}}, {"1", frac{1, 1}}, {"2", frac{2, 1}}, {"3", frac{3, 1}}, {"5", frac{5, 1}}, {"8", frac{8, 1}}, {"10", frac{10, 1}},
	{"-1", frac{-1, 1}}, {"-2", frac{-2, 1}}, {"-3", frac{-3, 1}}, {"0.5", frac{1, 2}}, {"-0.5", frac{-1, 2}}, {"1.5", frac{3, 2}}, {"2.5", frac{5, 2}},
	{"0.25", frac{1, 4}}, {"0.75", frac{3, 4}}, {"2.0", frac{2, 1}}}

func genTranscend(t *rapid.T) Case {
	fn := rapid.SampledFrom([]string{"log10", "log2", "ln", "sqrt", "pow", "pow"}).Draw(t, "fn")
	c := Case{Fn: fn, Obs: pbt.NewObs()}
	if rapid.IntRange(0, 11).Draw(t, "nonnumeric") == 0 {
		c.Args = append(c.Args, mkArg(t, 0, genNonNumeric(t, "nn"), false))
		if fn == "pow" {
			c.Args = append(c.Args, mkArg(t, 1, "2", false))
			if rapid.Bool().Draw(t, "swap") {
				c.Args[0], c.Args[1] = c.Args[1], c.Args[0]
			}
		}
		return c
	}
	switch fn {
	case "sqrt":
		v := genPositiveDec(t, "x")
		if rapid.IntRange(0, 15).Draw(t, "zero") == 0 {
			v = "0"
		}
		c.Args = append(c.Args, mkArg(t, 0, v, false))
	case "pow":
		e := rapid.SampledFrom(powExps).Draw(t, "exp")
		var a string
		if rapid.IntRange(0, 2).Draw(t, "small") > 0 {
			a = decStr(rapid.Int64Range(1, 3000).Draw(t, "a"), rapid.IntRange(0, 2).Draw(t, "as"))
		} else {
			a = itoa(rapid.Int64Range(1, 64).Draw(t, "a"))
		}
		if e.f.d == 1 && rapid.IntRange(0, 4).Draw(t, "negbase") == 0 {
			a = "-" + a
		}
		c.Args = append(c.Args, mkArg(t, 0, a, false), mkArg(t, 1, e.s, false))
	default:
		c.Args = append(c.Args, mkArg(t, 0, genPositiveDec(t, "x"), false))
	}
	return c
}

func ratPowInt(a *big.Rat, n int64) *big.Rat {
	neg := n < 0
	if neg {
		n = -n
	}
	num := new(big.Int).Exp(a.Num(), big.NewInt(n), nil)
	den := new(big.Int).Exp(a.Denom(), big.NewInt(n), nil)
	if neg {
		return new(big.Rat).SetFrac(den, num)
	}
	return new(big.Rat).SetFrac(num, den)
}

func checkTranscend(c Case) error {
	if bad, clear := firstNonNumeric(c.vals(), isPlainDec); bad >= 0 {
		if !clear {
			return nil // not generated
		}
		c.Obs.Label(true, "non-numeric")
		return checkNonNumeric(c, bad)
	}
	x := ratOf(c.arg(0))
	switch c.Fn {
	case "log10", "log2", "ln":
		if x.Sign() <= 0 {
			return nil // not generated
		}
	case "sqrt":
		if x.Sign() < 0 {
			return nil
		}
	case "pow":
		if len(c.Args) != 2 || x.Sign() == 0 {
			return nil
		}
	}
	r, err := evalClean(c)
	if err != nil {
		return err
	}
	got, err := parseOut(c, r)
	if err != nil {
		return err
	}
	switch c.Fn {
	case "sqrt":
		if got.Sign() < 0 {
			return fail(c, r, "negative square root")
		}
		sq := new(big.Rat).Mul(got, got)
		if !within(sq, x, new(big.Rat).Mul(relTol, x)) {
			return fail(c, r, "result squared is %s, not %s", fstr(sq), c.arg(0))
		}
		f, _ := got.Float64()
		c.Obs.Label(f == math.Trunc(f), "perfect-square")
	case "log10", "log2", "ln":
		// invert with the independent exponential: base^y must give x back
		y, _ := got.Float64()
		xf, _ := x.Float64()
		var back float64
		switch c.Fn {
		case "log10":
			back = math.Pow(10, y)
		case "log2":
			back = math.Pow(2, y)
		default:
			back = math.Exp(y)
		}
		if math.IsNaN(back) || math.Abs(back-xf) > 1e-9*xf {
			return fail(c, r, "base^result = %v, not %v", back, xf)
		}
		c.Obs.Label(y == math.Trunc(y), "integral-log")
		c.Obs.Label(y < 0, "log<0")
	case "pow":
		var e frac
		found := false
		for _, pe := range powExps {
			if pe.s == c.arg(1) {
				e, found = pe.f, true
			}
		}
		if !found {
			return nil // not generated
		}
		if x.Sign() < 0 && e.d != 1 {
			return nil
		}
		// got^d must equal x^n
		lhs := ratPowInt(got, e.d)
		rhs := ratPowInt(x, e.n)
		tol := new(big.Rat).Mul(new(big.Rat).Mul(relTol, big.NewRat(e.d, 1)), absRat(rhs))
		if !within(lhs, rhs, tol) {
			return fail(c, r, "result^%d = %s but base^%d = %s", e.d, fstr(lhs), e.n, fstr(rhs))
		}
		if e.d != 1 && got.Sign() < 0 {
			return fail(c, r, "negative principal root")
		}
		c.Obs.Label(e.d != 1, "fractional-exponent")
		c.Obs.Label(e.n < 0, "negative-exponent")
		c.Obs.Label(x.Sign() < 0, "negative-base")
	}
	return nil
}

func classifyTranscend(c Case) (bool, []string) {
	l := baseLabels(c)
	return true, l
}

var specTranscend = pbt.Spec[Case]{
	Property: prop, Name: "log-pow-sqrt",
	Rule:     "log10/log2/ln/sqrt of a positive decimal (powers of 10 and 2, perfect squares, short decimals, integers < 2^40), pow with base in (0,3000] (negative for integer exponents) and an exponent from {0,1,2,3,5,8,10,-1,-2,-3,0.5,-0.5,1.5,2.5,0.25,0.75}; oracle by inversion: sqrt(x)^2=x, base^log=x (math.Pow/Exp), pow(a,n/d)^d=a^n exactly in big.Rat, all within 1e-9 relative; 1 in 12 non-numeric. Every case is non-trivial",
	Budget:   pbt.Budget{Quick: 12000, Thorough: 96000},
	Gen:      genTranscend,
	Check:    checkTranscend,
	Classify: classifyTranscend,
}

func TestTranscend(t *testing.T) { pbt.Run(t, specTranscend) }
