// C01 — every input line is read exactly once and classified exactly once.
package c01

import (
	"bytes"
	"fmt"
	"os"
	"os/exec"
	"path/filepath"
	"regexp"
	"strconv"
	"strings"
	"sync"
	"testing"

	"pgregory.net/rapid"
	"verifharness/pbt"
	"verifharness/pipe"
)

func scratch() string {
	d := os.Getenv("VERIF_SCRATCH")
	if d == "" {
		d = os.TempDir()
	}
	return d
}

var (
	dirOnce sync.Once
	workDir string
)

func caseDir() string {
	dirOnce.Do(func() {
		workDir, _ = os.MkdirTemp(scratch(), "c01-")
	})
	return workDir
}

// compare checks the C01 facets of a run against the reference.
func compare(c *pipe.Case, g *pipe.Got, ref []pipe.RefLine) error {
	wr, wm, wi := pipe.Counts(ref)
	// engine-free cross-check of the reference's line count
	var ef uint64
	for _, in := range c.Inputs {
		ef += pipe.EngineFreeLineCount([]byte(in.Content))
	}
	if ef != wr {
		return fmt.Errorf("harness self-check: reference splitter counts %d lines, newline count says %d", wr, ef)
	}
	wantErrs := len(c.Missing)
	for _, in := range c.Inputs {
		if c.ViaReader && in.FailWithData {
			wantErrs++
		}
	}
	if g.ReadErrors != wantErrs {
		return fmt.Errorf("%d read errors reported, %d expected (inputs that cannot be opened + inputs whose last read fails; all others are healthy)", g.ReadErrors, wantErrs)
	}
	if g.Read != wr {
		return fmt.Errorf("ReadLines=%d, true number of lines=%d (batch=%d workers=%d readers=%d bb=%d)", g.Read, wr, c.Batch, c.Workers, c.Readers, c.BatchBuffer)
	}
	if g.Matched != wm {
		return fmt.Errorf("MatchedLines=%d, sequential evaluation gives %d (of %d lines)", g.Matched, wm, wr)
	}
	if g.Ignored != wi {
		return fmt.Errorf("IgnoredLines=%d, sequential evaluation gives %d (of %d lines)", g.Ignored, wi, wr)
	}
	if uint64(len(g.Copies)) != wm {
		return fmt.Errorf("%d matches emitted, %d expected", len(g.Copies), wm)
	}
	if c.Extract == "{#}" {
		// the key is the JSON view of the match. Its text is C16's subject;
		// here it has to identify the match: pairing every emitted match with
		// its line of the reference, one view text belongs to one tuple of
		// group texts and the other way round (a view left over from another
		// line - same line number in another input - breaks that).
		type at struct {
			src string
			no  uint64
		}
		refAt := map[at]string{}
		for _, l := range ref {
			if l.Class == pipe.Matched {
				refAt[at{l.Source, l.LineNo}] = l.Key
			}
		}
		fwd, back := map[string]string{}, map[string]string{}
		for i, m := range g.Copies {
			want, ok := refAt[at{m.Source, m.LineNumber}]
			if !ok {
				return fmt.Errorf("a match was emitted for %s line %d, which the sequential evaluation does not classify as matched", m.Source, m.LineNumber)
			}
			if prev, seen := fwd[m.Extracted]; seen && foldBools(prev) != foldBools(want) {
				return fmt.Errorf("{#} of %s line %d is %q, the same text as the view of a match with other group texts (%q vs %q)", m.Source, m.LineNumber, pbt.Trunc(m.Extracted, 200), pbt.Trunc(prev, 200), pbt.Trunc(want, 200))
			}
			if prev, seen := back[want]; seen && prev != m.Extracted {
				return fmt.Errorf("{#} of %s line %d is %q, but an identical match was rendered %q", m.Source, m.LineNumber, pbt.Trunc(m.Extracted, 200), pbt.Trunc(prev, 200))
			}
			fwd[m.Extracted], back[want] = want, m.Extracted
			g.Copies[i].Extracted = want
		}
	}
	var gk, wk []string
	for _, m := range g.Copies {
		gk = append(gk, m.Source+"\x01"+m.Extracted)
	}
	for _, l := range ref {
		if l.Class == pipe.Matched {
			wk = append(wk, l.Source+"\x01"+l.Key)
		}
	}
	if d := pipe.DiffMultiset(pipe.KeyMultiset(gk), pipe.KeyMultiset(wk)); d != "" {
		return fmt.Errorf("multiset of emitted (source,key) differs from the sequential evaluation:\n%s", d)
	}
	return nil
}

// foldBools: the JSON view writes a group whose text is true/false in any
// capitalisation as the literal, so TRUE and true share one view text.
func foldBools(surrogate string) string {
	parts := strings.Split(surrogate, "\x01")
	for i, p := range parts {
		q := strings.TrimPrefix(p, "\x02#")
		if l := strings.ToLower(q); (l == "true" || l == "false") && len(l) == len(q) {
			parts[i] = p[:len(p)-len(q)] + l
		}
	}
	return strings.Join(parts, "\x01")
}

func observe(c *pipe.Case, g *pipe.Got, ref []pipe.RefLine) {
	o := c.Obs
	if o == nil {
		return
	}
	r, m, i := pipe.Counts(ref)
	o.Add("lines", int(r))
	classes := 0
	if m > 0 {
		classes++
	}
	if i > 0 {
		classes++
	}
	if r-m-i > 0 {
		classes++
	}
	o.Add("classes", classes)
	maxLines := 0
	for _, in := range c.Inputs {
		b := []byte(in.Content)
		n := int(pipe.EngineFreeLineCount(b))
		if n > maxLines {
			maxLines = n
		}
		o.Label(len(b) > 0 && b[len(b)-1] != '\n', "last-line-unterminated")
		o.Label(n > 0 && n%c.Batch == 0, "exact-multiple-of-batch")
		o.Label(len(b) > 128*1024, "line>buffer")
		o.Label(bytes.Contains(b, []byte("\r\n")), "has-CRLF")
		o.Label(bytes.Contains(b, []byte("\n\n")) || bytes.HasPrefix(b, []byte("\n")), "has-empty-line")
		o.Label(len(b) == 0, "empty-input")
		for k := 1; k*pipe.ReadBuf <= len(b); k++ {
			o.Label(b[k*pipe.ReadBuf-1] == '\n', "newline-is-last-byte-of-read-buffer")
		}
	}
	o.Add("maxLines", maxLines)
	if c.ViaReader && g != nil && c.Batch > 0 {
		// more match batches than size-based cuts can produce => the timer cut one
		o.Label(g.Batches > (int(r)+c.Batch-1)/c.Batch, "timer-flush-observed")
	}
	o.Label(maxLines > c.Batch, "spans>=2-batches")
	o.Label(c.Workers >= 2, "workers>=2")
	o.Label(c.Readers >= 2 && len(c.Inputs) >= 2, "concurrent-readers")
	o.Label(len(c.Ignores) > 0, "has-ignore")
	o.Label(i > 0, "some-ignored")
	o.Label(len(c.MatchDelay) > 0, "matcher-latency")
	o.Label(len(c.ConsumeDelay) > 0, "consumer-latency")
	o.Label(c.ViaReader, "reader-path")
	o.Label(len(c.Missing) > 0, "unopenable-input-among-healthy")
	o.Label(len(c.Missing) >= c.Readers && len(c.Missing) > 0, "unopenable>=reader-slots")
	o.Label(c.Matcher.Kind == "dissect", "dissect")
	o.Label(c.Matcher.Kind == "regex", "regex")
	o.Label(c.Matcher.Kind == "default", "default-matcher")
}

func classify(c pipe.Case) (bool, []string) {
	o := c.Obs
	nt := o.Has("spans>=2-batches") && (o.Has("workers>=2") || o.Has("concurrent-readers")) && o.Get("classes") >= 2
	return nt, o.All()
}

func checkInProc(c pipe.Case) error {
	g, err := pipe.Run(&c, caseDir())
	if err != nil {
		return err
	}
	ref, err := pipe.Reference(&c, g.Sources)
	if err != nil {
		return fmt.Errorf("harness: reference: %v", err)
	}
	observe(&c, g, ref)
	return compare(&c, g, ref)
}

const rule = "inputs = generated lines (log-like, key=value, hostile bytes incl. NUL/0xFF/ESC/lone CR, empty, blanks, occasionally one line >128KiB) with \\n / \\r\\n terminators and optional missing final newline; matcher from a pool of %d regexes / %d dissect patterns / default; extract and ignore expressions from pools (some give empty keys, some whitespace-only); batch in {1,2,3,7,64,1000}, workers 1-8, readers 1-4, batch-buffer 1-8, GOMAXPROCS in {1,2,4,16}, matcher/consumer latency plans. Oracle: sequential one-line-at-a-time reference (reference splitter + independently compiled regexp + own expression context): ReadLines, MatchedLines, IgnoredLines and the multiset of (source,key). Non-trivial: an input spans >=2 batches, (workers>=2 or >=2 concurrent readers) and >=2 of the classes matched/ignored/unmatched non-empty; distinct by case JSON"

func TestFiles(t *testing.T) {
	pbt.Run(t, pbt.Spec[pipe.Case]{
		Property: "C01", Name: "files",
		Rule:   "file path (OpenFilesToChan), 1-6 files x <=240 lines: " + fmt.Sprintf(rule, len(pipe.RegexPool), len(pipe.DissectPool)),
		Budget: pbt.Budget{Quick: 12000, Thorough: 400000},
		Gen: func(t *rapid.T) pipe.Case {
			c := pipe.GenCase(t, 6, 240)
			if c.Matcher.Kind != "default" && rapid.IntRange(0, 7).Draw(t, "jsonView") == 0 {
				// key (and sometimes the ignore test) built from the JSON view of the match
				c.Extract = "{#}"
				if rapid.Bool().Draw(t, "jsonIgnore") {
					c.Ignores = []string{"{like {#} " + rapid.SampledFrom([]string{"GET", "POST", "PUT", "Z"}).Draw(t, "needle") + "}"}
				}
			}
			return c
		},
		Check:    checkInProc,
		Classify: classify,
	})
}

func TestReader(t *testing.T) {
	pbt.Run(t, pbt.Spec[pipe.Case]{
		Property: "C01", Name: "reader",
		Rule:     "reader path (OpenReaderToChan, time-flush code path, reads chunked incl. 0-byte reads, no long stalls): " + fmt.Sprintf(rule, len(pipe.RegexPool), len(pipe.DissectPool)),
		Budget:   pbt.Budget{Quick: 6000, Thorough: 200000},
		Gen:      func(t *rapid.T) pipe.Case { return pipe.GenReaderCase(t, 200, false) },
		Check:    checkInProc,
		Classify: classify,
	})
}

// TestTimeFlush: reader path with read stalls longer than the 250 ms
// auto-flush timer, so that batches are cut by the timer.
func TestTimeFlush(t *testing.T) {
	pbt.Run(t, pbt.Spec[pipe.Case]{
		Property: "C01", Name: "timeflush",
		Rule:   "reader path with up to 3 read stalls of 270 ms (> the 250 ms auto-flush timer) so batches are cut by the timer; same oracle. Non-trivial: as above",
		Budget: pbt.Budget{Quick: 64, Thorough: 1600},
		Gen:    func(t *rapid.T) pipe.Case { return pipe.GenReaderCase(t, 120, true) },
		Check:  checkInProc,
		Classify: func(c pipe.Case) (bool, []string) {
			nt, l := classify(c)
			return nt, append(l, "timer-stalls")
		},
	})
}

// ---- CLI layer ----------------------------------------------------------

type CLICase struct {
	P     pipe.Case
	Stdin bool // deliver the (single) input on stdin
}

var summaryRe = regexp.MustCompile(`Matched: (\d+) / (\d+)(?: \(Ignored: (\d+)\))?`)

func checkCLI(cc CLICase) error {
	bin := os.Getenv("VERIF_RARE_BIN")
	if bin == "" {
		return nil
	}
	c := cc.P
	dir := caseDir()
	var files []string
	for i, in := range c.Inputs {
		fn := filepath.Join(dir, fmt.Sprintf("cli%02d-%s", i, in.Name))
		if err := os.WriteFile(fn, []byte(in.Content), 0o644); err != nil {
			return fmt.Errorf("harness: %v", err)
		}
		files = append(files, fn)
		defer os.Remove(fn)
	}
	args := []string{"--nocolor", "--noformat", "filter",
		"--batch", strconv.Itoa(c.Batch), "--workers", strconv.Itoa(c.Workers),
		"--readers", strconv.Itoa(c.Readers), "--batch-buffer", strconv.Itoa(c.BatchBuffer),
		"-e", c.Extract}
	if c.UseGunzip() && !cc.Stdin { // rare refuses -z on stdin (usage error)
		args = append(args, "-z")
	}
	switch c.Matcher.Kind {
	case "regex":
		args = append(args, "-m", c.Matcher.Pattern)
		if c.Matcher.Posix {
			args = append(args, "-p")
		}
	case "dissect":
		args = append(args, "-d", c.Matcher.Pattern)
	}
	if c.Matcher.IgnoreCase && c.Matcher.Kind != "default" {
		args = append(args, "-I")
	}
	for _, ig := range c.Ignores {
		args = append(args, "-i", ig)
	}
	sources := files
	cmd := exec.Command(bin)
	if cc.Stdin {
		sources = []string{"<stdin>"}
		cmd.Stdin = bytes.NewReader([]byte(c.Inputs[0].Content))
		if len(c.Inputs) == 1 && len(c.Inputs[0].Content)%2 == 0 {
			args = append(args, "-")
		}
	} else {
		for i, f := range files {
			for k, m := range c.Missing {
				if m == i {
					args = append(args, filepath.Join(dir, fmt.Sprintf("cli-missing-%d-%d.log", i, k)))
				}
			}
			args = append(args, f)
		}
		for k, m := range c.Missing {
			if m == len(files) {
				args = append(args, filepath.Join(dir, fmt.Sprintf("cli-missing-%d-%d.log", m, k)))
			}
		}
	}
	cmd.Args = append(cmd.Args, args...)
	cmd.Env = append(os.Environ(), "GOMAXPROCS="+strconv.Itoa(c.Procs))
	var stdout, stderr bytes.Buffer
	cmd.Stdout, cmd.Stderr = &stdout, &stderr
	runErr := cmd.Run()
	code := 0
	if ee, ok := runErr.(*exec.ExitError); ok {
		code = ee.ExitCode()
	} else if runErr != nil {
		return fmt.Errorf("harness: cannot run rare: %v", runErr)
	}
	if cc.Stdin {
		c.Missing = nil
	}
	if len(c.Missing) > 0 {
		if code != 2 {
			return fmt.Errorf("rare %q exited %d although %d inputs cannot be opened (expected 2)\nstderr: %s", args, code, len(c.Missing), pbt.Trunc(stderr.String(), 1500))
		}
	} else if code != 0 && code != 1 {
		return fmt.Errorf("rare %q exited %d\nstderr: %s", args, code, pbt.Trunc(stderr.String(), 1500))
	}
	ref, err := pipe.Reference(&c, sources)
	if err != nil {
		return fmt.Errorf("harness: reference: %v", err)
	}
	wr, wm, wi := pipe.Counts(ref)
	sm := summaryRe.FindStringSubmatch(stderr.String())
	if sm == nil {
		return fmt.Errorf("no 'Matched: M / R' summary on stderr: %s", pbt.Trunc(stderr.String(), 600))
	}
	gm, _ := strconv.ParseUint(sm[1], 10, 64)
	gr, _ := strconv.ParseUint(sm[2], 10, 64)
	gi := uint64(0)
	if sm[3] != "" {
		gi, _ = strconv.ParseUint(sm[3], 10, 64)
	}
	if gm != wm || gr != wr || gi != wi {
		return fmt.Errorf("summary says Matched: %d / %d (Ignored: %d); sequential evaluation gives %d / %d (Ignored: %d)\nargs=%q", gm, gr, gi, wm, wr, wi, args)
	}
	if len(c.Missing) == 0 && (wm == 0) != (code == 1) {
		return fmt.Errorf("exit status %d with %d matches", code, wm)
	}
	// stdout is a concatenation of key+"\n" in some order: compare the
	// multisets of '\n'-separated fragments.
	var want []string
	for _, l := range ref {
		if l.Class == pipe.Matched {
			want = append(want, strings.Split(l.Key, "\n")...)
		}
	}
	out := stdout.String()
	var got []string
	if out != "" {
		if !strings.HasSuffix(out, "\n") {
			return fmt.Errorf("stdout does not end with a newline")
		}
		got = strings.Split(strings.TrimSuffix(out, "\n"), "\n")
	}
	if d := pipe.DiffMultiset(pipe.KeyMultiset(got), pipe.KeyMultiset(want)); d != "" {
		return fmt.Errorf("emitted keys differ from the sequential evaluation:\n%s\nargs=%q", d, args)
	}
	observe(&c, &pipe.Got{}, ref)
	c.Obs.Label(cc.Stdin, "stdin")
	return nil
}

func TestCLI(t *testing.T) {
	pbt.Run(t, pbt.Spec[CLICase]{
		Property: "C01", Name: "cli",
		Rule:   "the real binary: rare --nocolor --noformat filter -e .. [-m|-d ..] [-i ..] --batch --workers --readers --batch-buffer files.. (or the stream on stdin), GOMAXPROCS from the case; summary line 'Matched: M / R (Ignored: I)' on stderr and the multiset of emitted keys on stdout against the sequential reference. Non-trivial: as for the in-process sub-properties",
		Budget: pbt.Budget{Quick: 400, Thorough: 12000},
		Gen: func(t *rapid.T) CLICase {
			var cc CLICase
			if rapid.IntRange(0, 4).Draw(t, "stdin") == 0 {
				cc.Stdin = true
				cc.P = pipe.GenCase(t, 1, 240)
			} else {
				cc.P = pipe.GenCase(t, 5, 240)
			}
			cc.P.MatchDelay, cc.P.ConsumeDelay = nil, nil
			return cc
		},
		Check: checkCLI,
		Classify: func(cc CLICase) (bool, []string) {
			return classify(cc.P)
		},
	})
}
