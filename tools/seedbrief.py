#!/usr/bin/env python3
"""seedbrief.py <ID> <k1,k2,k3>: creates the scratch worktree /tmp/seed-<ID> (if missing) and writes
out/TASK.md there: the brief for an independent seed writer (property text only, nothing of /verif's checks).
The titles of earlier seeds of the same property (written by earlier independent writers) are listed as taken."""
import json, os, re, subprocess, sys, glob
pid, ks = sys.argv[1], sys.argv[2].split(",")
wt = "/tmp/seed-" + pid
if not os.path.isdir(wt):
    subprocess.check_call(["git", "-C", "/repo", "worktree", "add", "--detach", wt, "HEAD"], stdout=subprocess.DEVNULL, stderr=subprocess.DEVNULL)
os.makedirs(wt + "/out", exist_ok=True)
prop = [json.loads(l) for l in open("/verif/properties.jsonl") if json.loads(l)["id"] == pid][0]
taken = []
for p in sorted(glob.glob("/verif/seeded/%s-*/README.md" % pid)):
    for l in open(p, errors="replace"):
        l = l.strip().lstrip("# ").strip()
        if l:
            taken.append(re.sub(r"^Seed\s*\S*\s*[-:–—.]*\s*", "", l)[:160]); break
focus = " ".join(sys.argv[3:])
q = prop.get('quantifier','')
q = q.get('text', q) if isinstance(q, dict) else q
anch = json.dumps(prop.get("anchors"), indent=1)
txt = f"""# Task: write {len(ks)} property-breaking changes to zix99/rare (property {pid})

You work ONLY inside the git worktree `{wt}` (a checkout of zix99/rare, a Go CLI log scanner). Do not read or
write anything under /repo or /verif. There is no network. Every shell call needs:

    export GOFLAGS=-mod=mod GOPROXY=off GOSUMDB=off GOTOOLCHAIN=local

## The property (this is all you are given about it)

**{prop['title']}**

{prop['statement']}

Quantifier: {q}

Code it is anchored in: {anch}

## What to produce

{len(ks)} independent changes, numbered {', '.join(ks)}. Each is a small, realistic source change to zix99/rare (non-test
files only) that

1. still compiles (`go build ./...`),
2. still passes the whole existing test suite (`go test -vet=off -count=1 ./...`; `TestTryWriteCSV` in cmd/helpers
   fails on the clean tree already - ignore that one),
3. makes the property above FALSE for some input / schedule / history - a real violation of a sentence of the
   property text, not a cosmetic difference and not a removal of the feature,
4. looks like something a maintainer could plausibly commit (an optimisation, a cache, a refactor, a "simplification",
   a reordered cleanup, an off-by-one in a rarely taken branch, a pooled buffer ...), not sabotage behind a magic constant,
5. needs something SPECIFIC to manifest, so that ordinary use would not expose it at once: a particular interleaving or
   timing, a fault at a particular point, a multi-step sequence of operations, an unusual but legal input, a particular
   combination of flags, or TWO cooperating sites that each look fine alone. Prefer sites and mechanisms that are
   less obvious: code that is reached only through the command-line front end (cmd/, cmd/helpers/), rarely used
   flags, state kept between calls, boundary sizes, code shared between several helpers.
{('Focus hint: ' + focus) if focus else ''}

The {len(ks)} changes must differ from each other in site AND mechanism, and must differ from these ideas, which earlier
writers already used for this property (do not repeat them or close variants):

""" + "\n".join("- " + t for t in taken) + f"""

## Files to write (per change k in {', '.join(ks)}): directory `{wt}/out/<k>/`

* `patch.diff` - `git diff` against HEAD, must apply with `git apply out/<k>/patch.diff` from the worktree root on a clean tree.
* `demo_test.go` - a Go test file demonstrating the violation. FIRST LINE must be `// dir: <package directory relative to
  the worktree root>` (e.g. `// dir: pkg/extractor`); its `package` clause must be the package of that directory (an
  internal test file that is copied there as zz_seed_demo_test.go). Test function names start with `TestSeed`. It must
  PASS on the clean tree and FAIL with the patch applied - deterministically, or at least 9 times out of 10 (loop inside
  the test if the failure is schedule dependent). If a Go test is impossible, write `demo.sh` instead (bash; `$ROOT` is
  the worktree root; exit 0 = property holds, non-zero = violated).
* `README.md` - first line `# Seed {pid}/<k> - <short title naming site and mechanism>`; then: the site(s); what the change
  does; which sentence of the property it breaks; exactly what it needs in order to manifest; why the existing tests
  still pass.

## Procedure

Never use `git stash` (the stash is shared with other worktrees of this repository and other writers work in parallel);
run the suite as `go test -vet=off -count=1 $(go list ./... | grep -v /out/)` so that your files under out/ are not taken for packages.

For each change: start from a clean tree (`git checkout -- . && git clean -fdq -e out`), make the edit, run the build, the
full suite and your demo; save the files; then restore the clean tree and check that the demo passes there and that the
saved patch applies. Verify each patch independently of the others. When you finish, leave the worktree clean (only
`out/` remains untracked) and report, per change, one paragraph: site, mechanism, what it needs to manifest, and the
observed results of build / suite / demo-clean / demo-patched.
"""
open(wt + "/out/TASK.md", "w").write(txt)
print(wt + "/out/TASK.md", len(taken), "taken")
