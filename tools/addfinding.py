#!/usr/bin/env python3
"""addfinding.py <property> <key> <commit> <what> [witness]  - append a status=fixed entry to known_findings.json (build-time tool; never used by a check)."""
import json, sys
p = "/verif/known_findings.json"
d = json.load(open(p))
prop, key, commit, what = sys.argv[1:5]
wit = sys.argv[5] if len(sys.argv) > 5 else "regress/%s/*.json" % prop
for e in d["findings"]:
    if e["property"] == prop and e["key"] == key:
        sys.exit("exists")
d["findings"].append({"property": prop, "key": key, "status": "fixed", "commit": commit,
                      "line": "fixed: property=%s %s %s" % (prop, commit, what), "witness": wit})
json.dump(d, open(p, "w"), indent=1, ensure_ascii=False)
open(p, "a").write("\n")
