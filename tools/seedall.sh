#!/bin/bash
# usage: seedall.sh <ID> [extra check ids...]  - confirms /tmp/seed-<ID>/out/{1,2,3} and runs the checks against each
ID=$1; shift
WT=/tmp/seed-$ID
for k in ${KS:-1 2 3 4 5 6 7 8 9}; do
  [ -f $WT/out/$k/patch.diff ] || continue
  /verif/tools/seedconfirm.sh $WT $k $ID-$k $ID $ID "$@" > /dev/null 2>&1
  python3 /verif/tools/seedmeta.py $ID-$k $ID
  echo "--- $ID-$k"; grep -E "clean:|patched:|BUILD|FAIL|VIOLATION|^OK|INCONCLUSIVE|patch does not" /verif/seeded/$ID-$k/confirm.log | cut -c1-220
done
