#!/usr/bin/env python3
"""seedmeta.py <seedname> <property>: writes /verif/seeded/<seedname>/meta.json from confirm.log + README.md (build-time tool)."""
import json, os, re, sys
name, prop = sys.argv[1:3]
d = "/verif/seeded/" + name
log = open(os.path.join(d, "confirm.log"), errors="replace").read() if os.path.exists(os.path.join(d, "confirm.log")) else ""
readme = open(os.path.join(d, "README.md")).read() if os.path.exists(os.path.join(d, "README.md")) else ""
checks = {}
cur = None
for line in log.splitlines():
    m = re.match(r"== check (\S+) against the change", line)
    if m:
        cur = m.group(1); checks[cur] = "no verdict"; continue
    if cur and line.startswith("VIOLATION"):
        checks[cur] = "VIOLATION"
    elif cur and line.startswith("OK") and checks[cur] == "no verdict":
        checks[cur] = "OK (missed)"
    elif cur and line.startswith("INCONCLUSIVE") and checks[cur] == "no verdict":
        checks[cur] = "INCONCLUSIVE"
suite_fail = sorted(n for n in set(re.findall(r"--- FAIL: (\S+)", log)) - {"TestTryWriteCSV"} if not n.startswith("TestSeed"))
meta_p = os.path.join(d, "meta.json")
old = json.load(open(meta_p)) if os.path.exists(meta_p) else {}
meta = {
    "seed": name, "breaks_property": prop,
    "source": "written by an independent sub-agent that saw only the property text and a scratch worktree of zix99/rare",
    "needs_to_manifest": old.get("needs_to_manifest", ""),
    "readme_excerpt": readme.strip()[:1500],
    "confirmed": {
        "demo_passes_on_clean_tree": "clean: demo PASSES" in log,
        "builds_with_change": "build ok" in log,
        "existing_suite_failures_with_change": suite_fail,
        "demo_fails_with_change": "patched: demo FAILS (confirmed)" in log,
    },
    "ran": ["tools/seedconfirm.sh (clean demo, git apply, go build ./..., go test ./..., demo, ./check <ID> --tier quick with VERIF_REPO=<scratch worktree>)"],
    "quick_checks_against_change": checks,
    "notes": old.get("notes", ""),
}
json.dump(meta, open(meta_p, "w"), indent=1)
