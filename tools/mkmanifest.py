#!/usr/bin/env python3
"""Regenerates /verif/MANIFEST.json from checks.json (single source of truth)."""
import json, os
V = os.path.dirname(os.path.dirname(os.path.abspath(__file__)))
cfg = json.load(open(os.path.join(V, "checks.json")))
props = [json.loads(l) for l in open(os.path.join(V, "properties.jsonl")) if l.strip()]
baseline = json.load(open("/root/.vp/BASELINE.json"))["cmd"] if os.path.exists("/root/.vp/BASELINE.json") else ""
hooks_commits = []
hc = os.path.join(V, "hooks_commits.txt")
if os.path.exists(hc):
    hooks_commits = [l.strip() for l in open(hc) if l.strip()]
m = {
    "version": 1,
    "setup_cmd": "./setup.sh",
    "hooks": {
        "guard": "verif",
        "enable": "go build/test -tags verif (the launcher ./check always passes -tags verif)",
        "baseline_off_cmd": "cd /repo && GOFLAGS=-mod=mod go test -json -vet=off -count=1 -timeout 25m ./...",
        "source_commits": hooks_commits,
        "add_only": True,
    },
    "engines": [{
        "name": "pbt-launcher", "path": "check",
        "serves_properties": sorted(k for k, v in cfg.items() if v.get("claimed", True)),
        "kind_free_text": "python launcher that rebuilds the Go harness (rapid v1.3.0 generators + explicit oracles, bounded-exhaustive enumerations, native go fuzz in the thorough tier) against /repo's working tree, shards it over 16 processes, merges evidence and prints VIOLATION/KNOWN-FINDING lines",
    }],
    "checks": [],
    "not_applicable": [],
    "notes": "All checks: ./check <ID> --tier quick|thorough ; replay: ./check <ID> --replay <file>. Exit 0 held / 1 violation / 2 inconclusive. Known findings: known_findings.json (never written at run time).",
}
for p in props:
    pid = p["id"]
    c = cfg.get(pid)
    if not c or not c.get("claimed", True):
        m["not_applicable"].append({"property_id": pid, "reason": (c or {}).get("na_reason", "check still under construction in this session; not claimed until it is green on the unchanged tree and has caught a deliberate breakage")})
        continue
    m["checks"].append({
        "property_id": pid,
        "quick_cmd": "./check %s --tier quick" % pid,
        "thorough_cmd": "./check %s --tier thorough" % pid,
        "evidence_file": "evidence/%s.json" % pid,
        "replay_cmd_template": "./check %s --replay {path}" % pid,
        "engine": "pbt-launcher",
        "level_claimed": {"category": "exploration", "text": c["level_text"], "design_ref": "DESIGN.md section 2, " + pid},
        "level_note": c["level_note"],
        "technique": c["technique"],
    })
json.dump(m, open(os.path.join(V, "MANIFEST.json"), "w"), indent=1)
print("claimed:", [c["property_id"] for c in m["checks"]])
