#!/usr/bin/env python3
"""Prints the markdown table of seeded changes (from seeded/*/meta.json) for DESIGN.md."""
import json, glob, os, re
rows = []
for p in sorted(glob.glob("/verif/seeded/*/meta.json"), key=lambda s: (s.split("/")[-2].split("-")[0], int(s.split("/")[-2].split("-")[1]))):
    m = json.load(open(p))
    name = m["seed"]
    readme = m.get("readme_excerpt", "")
    title = ""
    for l in readme.splitlines():
        l = l.strip().lstrip("# ").strip()
        if l:
            title = l; break
    title = re.sub(r"^Seed \d+\s*[-:–—.]*\s*", "", title)[:110]
    conf = m["confirmed"]
    ok = conf["demo_passes_on_clean_tree"] and conf["builds_with_change"] and conf["demo_fails_with_change"] and not conf["existing_suite_failures_with_change"]
    checks = "; ".join("%s: %s" % (k, v) for k, v in m["quick_checks_against_change"].items())
    note = " (*)" if m.get("notes") else ""
    rows.append("| %s | %s | %s | %s%s |" % (name, title.replace("|", "/"), "yes" if ok else "NO", checks, note))
print("| seed | change (from its README) | confirmed | quick check |")
print("|---|---|---|---|")
print("\n".join(rows))
