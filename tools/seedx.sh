#!/bin/bash
# seedx.sh <seedname e.g. C04-12> <check ids...>: run further checks against an already confirmed seed (scratch worktree /tmp/seed-<ID>)
export GOFLAGS=-mod=mod GOPROXY=off GOSUMDB=off GOTOOLCHAIN=local
NAME=$1; shift
ID=${NAME%%-*}; K=${NAME##*-}
WT=/tmp/seed-$ID
git -C $WT checkout -q -- . ; git -C $WT clean -fdq -e out
# keep the scratch worktree at /repo's current HEAD (later fix: commits must be in the tree the patch is applied to)
git -C $WT checkout -q --detach $(git -C /repo rev-parse HEAD)
git -C $WT apply /verif/seeded/$NAME/patch.diff || { echo "patch does not apply"; exit 3; }
for id in "$@"; do
  echo "== check $id against $NAME ${ONLY:+(only $ONLY)}"
  VERIF_ALT_OUT=$WT/out/alt-$K VERIF_REPO=$WT /verif/check $id --tier quick ${ONLY:+--only "$ONLY"} 2>&1 | grep -E "^(VIOLATION|OK|INCONCLUSIVE|----)" | cut -c1-220
done
git -C $WT checkout -q -- . ; git -C $WT clean -fdq -e out
