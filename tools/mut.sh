#!/bin/bash
# usage: mut.sh <ID> <file> <python-expr-old> <new>   -- applies a literal replacement in a scratch worktree and runs the quick check
# env WT=/tmp/wtN to choose worktree
WT=${WT:-/tmp/wt1}
ID=$1; FILE=$2; OLD=$3; NEW=$4
if [ ! -d $WT ]; then git -C /repo worktree add --detach $WT >/dev/null 2>&1; fi
git -C $WT checkout -q --detach $(git -C /repo rev-parse HEAD) && git -C $WT checkout -q -- . 
python3 - "$WT/$FILE" "$OLD" "$NEW" <<'PY'
import sys
p,old,new=sys.argv[1:4]
s=open(p).read()
if old not in s: print("MUT: pattern not found"); sys.exit(3)
open(p,'w').write(s.replace(old,new,1))
PY
[ $? -eq 3 ] && exit 3
(cd $WT && go build ./... 2>&1 | head -5)
VERIF_REPO=$WT /verif/check $ID ${EXTRA} 2>&1 | grep -E "^(VIOLATION|OK|INCONCLUSIVE|KNOWN)" | head -5
git -C $WT checkout -q -- .
