#!/usr/bin/env python3
"""seednote.py <seed> <needs> <notes>: set needs_to_manifest / notes of a seed record (build-time tool)."""
import json, sys
p = "/verif/seeded/%s/meta.json" % sys.argv[1]
m = json.load(open(p))
m["needs_to_manifest"], m["notes"] = sys.argv[2], sys.argv[3]
json.dump(m, open(p, "w"), indent=1)
