#!/bin/bash
# Confirms an independently written property-breaking change and runs our checks against it.
# usage: seedconfirm.sh <worktree> <k> <seedname> <property> <check ids...>
#   <worktree>/out/<k>/{patch.diff, demo_test.go|demo.sh, README.md}
# Steps (all in the scratch worktree, never in /repo):
#   1 clean tree: demo passes   2 apply patch: build ok, existing suite ok (only TestTryWriteCSV fails), demo fails
#   3 run the named checks with VERIF_REPO=<worktree> (quick tier)   4 clean up
# Writes /verif/seeded/<seedname>/{patch.diff,demo*,README.md,confirm.log} ; meta.json is written by the caller.
export GOFLAGS=-mod=mod GOPROXY=off GOSUMDB=off GOTOOLCHAIN=local
WT=$1; K=$2; NAME=$3; PROP=$4; shift 4
SRC=$WT/out/$K
DST=/verif/seeded/$NAME
mkdir -p $DST
cp $SRC/patch.diff $DST/; cp $SRC/README.md $DST/ 2>/dev/null; cp $SRC/demo* $DST/ 2>/dev/null
LOG=$DST/confirm.log; : > $LOG
say() { echo "$@" | tee -a $LOG; }
clean() { git -C $WT checkout -q -- . ; git -C $WT clean -fdq -e out; }
clean
git -C $WT checkout -q --detach $(git -C /repo rev-parse HEAD)
PKG=""
if [ -f $SRC/demo_test.go ]; then
  PKG=$(head -5 $SRC/demo_test.go | grep -m1 -oE '^// *dir: *[A-Za-z0-9_/.]+' | sed 's#^// *dir: *##; s#/$##')
  [ -n "$PKG" ] || PKG=$(grep -m1 -oE '(pkg|cmd)/[A-Za-z0-9_/]+' $SRC/demo_test.go | sed 's#/$##; s#/demo_test.go##')
  [ -d "$WT/$PKG" ] || PKG=$(dirname "$PKG")
  if grep -q '^package main' $SRC/demo_test.go; then PKG="."; fi
fi
rundemo() {  # returns 0 if all demos pass
  local rc=0
  if [ -n "$PKG" ]; then
    cp $SRC/demo_test.go $WT/$PKG/zz_seed_demo_test.go
    names=$(grep -oE '^func (Test[A-Za-z0-9_]+)' $SRC/demo_test.go | awk '{print $2}' | paste -sd'|')
    (cd $WT && timeout 900 go test -vet=off -count=1 -run "^($names)\$" ./$PKG >> $LOG 2>&1) || rc=1
    rm -f $WT/$PKG/zz_seed_demo_test.go
  fi
  if [ -f $SRC/demo.sh ] && [ -z "$PKG" ]; then
    (SRC=$WT ROOT=$WT timeout 900 bash $SRC/demo.sh >> $LOG 2>&1) || rc=1
  fi
  return $rc
}
say "== demo on clean tree (pkg=$PKG)"
if rundemo; then say "clean: demo PASSES"; else say "clean: demo FAILS (unexpected)"; fi
say "== apply patch"
git -C $WT apply $SRC/patch.diff || { say "patch does not apply"; exit 3; }
(cd $WT && go build ./... >> $LOG 2>&1) && say "build ok" || say "BUILD FAILS"
say "== existing suite with the change"
(cd $WT && go test -vet=off -count=1 $(go list ./... | grep -v "^rare/out") 2>&1 | grep -v "^ok\|no test files" | grep -E "^(--- FAIL|FAIL|panic)" | sort | uniq -c | tee -a $LOG)
say "== demo with the change"
if rundemo; then say "patched: demo PASSES (change not confirmed)"; else say "patched: demo FAILS (confirmed)"; fi
for id in "$@"; do
  say "== check $id against the change"
  VERIF_ALT_OUT=$WT/out/alt-$K VERIF_REPO=$WT /verif/check $id --tier quick 2>&1 | grep -E "^(VIOLATION|OK|INCONCLUSIVE|KNOWN)" | cut -c1-200 | tee -a $LOG
done
clean
