#!/bin/sh
# Primes the Go build cache for the harness (offline). Safe to re-run.
export GOFLAGS=-mod=mod GOPROXY=off GOSUMDB=off GOTOOLCHAIN=local
HERE="$(cd "$(dirname "$0")" && pwd)"
cd "$HERE/harness" || exit 1
go build ./... >/dev/null 2>&1
for p in c*/; do go test -c -vet=off -tags verif -o /dev/null ./$p >/dev/null 2>&1; done
# packages the launcher builds with -race
for p in c05; do [ -d "$p" ] && go test -c -race -vet=off -tags verif -o /dev/null ./$p >/dev/null 2>&1; done
(cd /repo && GOFLAGS=-mod=readonly go build -tags verif -o /dev/null . >/dev/null 2>&1; GOFLAGS=-mod=readonly go build -race -tags verif -o /dev/null . >/dev/null 2>&1)
exit 0
